"""C18 — server lifecycle operations are safe in every order (DESIGN §4 C18).  ASYNC half.

Harnesses ``aio-tcp`` / ``aio-udp``: a real ``AsyncTCPNetworkServer`` / ``AsyncUDPNetworkServer`` on ``SimAsyncIOBackend`` +
``SimEventLoop``.  1–3 caller tasks issue a history of ≤ 7 calls from {serve_forever (inline or as a background task), shutdown,
server_close, is_serving, connect-a-client-and-do-a-request}; the world chooses the yield points between calls
(``asyncio.sleep(0)`` × k or short virtual sleeps), the duration of ``service_init`` (widens the set-up window), of name
resolution (widens the activation window), of the request handler, and the selector perturbations.  ``aio-tcp`` also draws
"descriptor exhaustion" episodes: the next 1-3 ``accept()`` calls of the listeners fail with EMFILE/ENFILE/ENOBUFS/ENOMEM, the listener
sits in its documented 0.1 s retry pause, and the lifecycle calls that follow (shutdown, server_close, the restart) meet it there.

Then an epilogue (part of the history, actor ``epi``) stops whatever is still serving, and — when nobody closed the server —
checks "a stopped-not-closed server accepts and answers a client after the next serve_forever", closes the server, checks
that a closed server refuses to serve, and that no listener socket is left open.

Oracle: ``models/lifecycle.py`` (set-of-configurations reference machine; asyncio-free so the threaded standalone servers can
reuse it: see ``LifecycleRecorder`` below, which is the only glue between a history and the model).  Plus, outside the model:
after ``server_close`` returns every listener socket the server had registered is closed; at the end no server-created socket
is open; no call hangs (virtual-time bound once no further call is pending).
"""
from __future__ import annotations

import asyncio
import errno as _errno
import os
import socket as _socket
from typing import Any, Awaitable, Callable

from easynetwork.protocol import DatagramProtocol, StreamProtocol
from easynetwork.serializers.line import StringLineSerializer
from easynetwork.servers.async_tcp import AsyncTCPNetworkServer
from easynetwork.servers.async_udp import AsyncUDPNetworkServer
from easynetwork.servers.handlers import AsyncDatagramRequestHandler, AsyncStreamRequestHandler

import easynetwork.clients.tcp  # noqa: F401  (everything the threaded harnesses import lazily is imported here: with line-level
import easynetwork.clients.udp  # noqa: F401   pre-emption a module body executed inside a run would be traced in the first run
import easynetwork.lowlevel.api_async.backend._asyncio.threads  # noqa: F401   of a process only -> different choices)
import easynetwork.servers.standalone_tcp  # noqa: F401
import easynetwork.servers.standalone_udp  # noqa: F401
import easynetwork.servers.threads_helper  # noqa: F401
from models import lifecycle as L
from vsim.backend import SimAsyncIOBackend, sim_sockets
from vsim.harness import Peer, swarm_selector, sync_engine
from vsim.loop import SimEventLoop, run_async
from vsim.runner import Harness
from vsim.sock import SimNet, SimSocket
from vsim.threads import Scheduler, ThreadAbort
from vsim.world import Deadlock, HarnessError, Violation, World

PROPERTY = "C18"
LEVEL = "exploration"
BUDGET = {"quick": 40, "thorough": 480}
RULE = (
    "histories of 1-7 calls from {serve_forever inline, serve_forever in a background task, shutdown, server_close, is_serving, "
    "client request} distributed over 1-3 caller tasks of a real AsyncTCPNetworkServer / AsyncUDPNetworkServer (1 or 2 listeners), "
    "yield points between calls chosen from {none, sleep(0) x 1..3, 1/64 s, 2..8/64 s}, service_init / name-resolution / handler "
    "durations chosen per run, selector hold/reorder/spurious readiness; aio-tcp: before a drawn call (1/4 of the calls of perturbed runs) "
    "the process runs out of descriptors: the next 1-3 accept() calls of the listeners fail with EMFILE/ENFILE/ENOBUFS/ENOMEM (<= 6 per "
    "run; over before the epilogue serves again), the listener pauses 0.1 s before each retry and a shutdown/server_close of the history "
    "or of the epilogue lands inside that pause (probe shutdown_in_accept_capacity_pause), then the server is restarted; followed by an epilogue (shutdown, serve-again + client, "
    "server_close, serve_forever on the closed server). A third of the runs use no explicit yields, no selector perturbation and no accept fault. "
    "Non-trivial run = a yield/selector/accept fault fired and >= 1 call completed."
)
COMPONENTS_REAL = [
    "easynetwork.servers._base.BaseAsyncNetworkServerImpl (serve_forever / shutdown / server_close / server_activate / is_serving)",
    "easynetwork.servers.async_tcp.AsyncTCPNetworkServer, easynetwork.servers.async_udp.AsyncUDPNetworkServer",
    "easynetwork.lowlevel.api_async.servers.{stream,datagram}, listeners, AsyncIOBackend task groups / cancel scopes / locks",
    "easynetwork.lowlevel.api_async.backend._asyncio.stream.listener.ListenerSocketAdapter (serve / raw_accept incl. the accept-capacity retry pause)",
    "asyncio selector event loop, sock_accept, _SelectorDatagramTransport (CPython 3.12)",
]
COMPONENTS_STUB = ["SimSocket listeners and connections", "SimSelector", "virtual clock", "name resolution table", "client peer (raw bytes / datagrams)"]
ASSUMPTIONS = [
    "invoke events of serve_forever/shutdown are atomic with the synchronous prologue of the coroutine (the harness logs the invoke and "
    "awaits the coroutine in the same task step)",
    "a client request is a raw line / datagram sent by a simulated remote socket; 'answered' = the exact upper-cased reply arrived within 1.5 virtual seconds",
    "listener sockets = sockets created by the server (every socket the harness creates is labelled cli*)",
]

SERVE_ERRORS = {"ServerClosedError": L.CLOSED_ERROR, "ServerAlreadyRunning": L.RUNNING_ERROR}
CLIENT_WAIT = 1.5  # virtual seconds a client waits for its answer
CALL_BOUND = 20.0  # virtual seconds within which every call must return once nothing else is pending
PORT = 5000
# accept(2) errors the stream listener documents as "the system is out of resources: pause 0.1 s, then go on accepting"
# (lowlevel/constants.py ACCEPT_CAPACITY_ERRNOS; spelled out here on purpose).  Linux reserves the descriptor before it looks at
# the queue, so an exhausted process gets them from every accept() call, queued connection or not.
CAPACITY_ERRNOS = ("EMFILE", "ENFILE", "ENOBUFS", "ENOMEM")
CAPACITY_PAUSE = 0.1  # documented retry pause (virtual seconds): only used to count shutdowns that land inside it
CAPACITY_MAX_PENDING = 3  # accept() calls that may be doomed at any time ...
CAPACITY_MAX_TOTAL = 6  # ... and per run: the pauses together stay far below CLIENT_WAIT, so a serving server still answers in time


# ================================================================================================ history recorder (engine-neutral)
class LifecycleRecorder:
    """Glue between a running history and the reference machine.  Engine-neutral on purpose: a threaded harness creates one
    with ``atomic=()`` and calls the same four methods from its threads (the baton scheduler serialises them)."""

    def __init__(self, world: World, harness: str, *, atomic: tuple = ()):
        self.world = world
        self.harness = harness
        self.model = L.LifecycleModel(atomic=atomic)
        self.next_id = 0
        self.completed = 0
        self.closed_at_invoke: dict[int, bool] = {}
        self.sched: Any = None  # threaded harnesses: the baton scheduler (the recorder goes silent while it aborts a run)

    def _guard(self, fn: Callable[..., None], *args: Any, detail: str = "", site_suffix: str = "") -> None:
        sched = self.sched
        if sched is not None and sched.aborting:
            raise ThreadAbort()  # threads unwind concurrently during an abort: nothing they do belongs to the history
        try:
            fn(*args, self.world.next_seq())
        except L.Inconsistent as exc:
            self.fail(Violation(exc.clause, exc.message + (f"\n detail: {detail}" if detail else ""), key=f"C18/{self.harness}/model/{exc.site}{site_suffix}"))

    def fail(self, v: Violation) -> None:
        """threaded runs: stop the world at the violation (the scheduler freezes the trace and releases every thread; the main
        thread re-raises) instead of letting the other threads run on until the main thread notices"""
        sched = self.sched
        if sched is not None and sched.active and not sched.aborting:
            if self.world.fatal is None:
                self.world.fatal = v
            sched.abort(v)
            raise v
        self.world.fail(v)

    def invoke(self, actor: str, kind: str) -> int:
        sched = self.sched
        if sched is not None and sched.aborting:
            raise ThreadAbort()
        self.next_id += 1
        opid = self.next_id
        if kind == L.SERVE:
            self.closed_at_invoke[opid] = self.model.certainly_closed()
        self.world.log("inv", actor, kind, opid)
        self._guard(self.model.invoke, opid, kind)
        return opid

    def ret(self, actor: str, opid: int, outcome: str, detail: str = "") -> None:
        sched = self.sched
        if sched is not None and sched.aborting:
            raise ThreadAbort()
        self.world.log("ret", actor, self.model.kinds[opid], opid, outcome)
        self.completed += 1
        self.world.progress(1)
        self.world.probe(f"{self.model.kinds[opid]}:{outcome}")
        self._guard(self.model.ret, opid, outcome, detail=detail)

    def up(self, opid: int) -> None:
        self._live()
        self.world.log("up", "srv", opid)
        # structural site: a server that was closed BEFORE this serve_forever was invoked / a close that overlapped its start-up /
        # anything else (e.g. two runners)
        if self.closed_at_invoke.get(opid):
            suffix = "/closed-before-serve_forever"
        elif self.model.possibly_closed():
            suffix = "/close-during-startup"
        else:
            suffix = ""
        self._guard(self.model.observe_up, opid, site_suffix=suffix)

    def handler(self, what: str) -> None:
        self._live()
        self.world.log("handler", "srv", what)
        self._guard(self.model.observe_handler)

    def not_stopped(self, what: str) -> None:
        self._live()
        self.world.log("evidence", "srv", what)
        self._guard(self.model.observe_not_stopped, what)

    def _live(self) -> None:
        sched = self.sched
        if sched is not None and sched.aborting:
            raise ThreadAbort()

    def is_serving(self, actor: str, value: bool) -> None:
        self._live()
        self.world.log("is_serving", actor, value)
        self._guard(self.model.observe_is_serving, value)


def _leaves(exc: BaseException) -> list[BaseException]:
    if isinstance(exc, BaseExceptionGroup):
        return [leaf for e in exc.exceptions for leaf in _leaves(e)]
    return [exc]


class _UpEvent:
    def __init__(self, rec: LifecycleRecorder, opid: int):
        self.rec = rec
        self.opid = opid
        self.flag = False

    def set(self) -> None:
        self.flag = True
        self.rec.up(self.opid)


# ================================================================================================ the run
OPS = ("serve_bg", "shutdown", "client", "is_serving", "close", "serve", "serve_bg", "client", "shutdown", "close")


class Run:
    def __init__(self, world: World, kind: str):
        self.world = world
        self.kind = kind  # "tcp" | "udp"
        self.harness = f"aio-{kind}"
        self.net = SimNet(world)
        self.backend = SimAsyncIOBackend(self.net, hosts={"sim.host": [(_socket.AF_INET, "10.0.0.1")]})
        self.rec = LifecycleRecorder(world, self.harness, atomic=(L.SERVE, L.SHUTDOWN))
        # ---- swarm
        self.perturb = world.choose("perturb", 3)  # 0 => no explicit yields, plain selector (baseline third)
        # two hosts => two listener sockets: the class in which an interrupted create_udp_listeners() used to leak a bound
        # socket (fixed in /repo 7371dd8); generated in every run
        self.host: Any = world.pick("host", ["127.0.0.1", "sim.host", ["127.0.0.1", "sim.host"]])
        if self.perturb:
            self.backend.getaddrinfo_delay = (0.0, 1 / 64.0, 3 / 64.0)[world.choose("dns_delay", 3)]
            self.init_delay = (0.0, 0.0, 1 / 64.0, 4 / 64.0)[world.choose("init_delay", 4)]
            self.handle_delay = (0.0, 0.0, 2 / 64.0, 10 / 64.0)[world.choose("handle_delay", 4)]
            self.quit_delay = (0.0, 0.0, 3 / 64.0, 12 / 64.0)[world.choose("quit_delay", 4)]
        else:
            self.init_delay = self.handle_delay = self.quit_delay = 0.0
        if self.backend.getaddrinfo_delay or self.init_delay or self.handle_delay or self.quit_delay:
            world.fault("delay")
        # ---- history
        self.ntasks = 1 + world.choose("ntasks", 3)
        nops = 1 + world.choose("nops", 7)
        self.programs: list[list[tuple]] = [[] for _ in range(self.ntasks)]
        # accept-capacity fault (TCP): right before a drawn call of the history the process "runs out of descriptors": the next 1-3
        # accept() calls of the server's listeners fail with EMFILE & co (a real per-call socket error), the listener pauses 0.1 s
        # before each retry.  A shutdown()/server_close() of another task - or of the same one after a short yield - lands inside
        # that pause; the calls that follow (and the epilogue) tell whether the stopped server can still serve again.
        self.accept_faults: list[str] = []  # names of the errors the next accept() calls fail with
        self.accept_faults_fired = 0
        self.pause_until = -1.0
        for _ in range(nops):
            t = world.choose("task", self.ntasks)
            op = OPS[world.choose("op", len(OPS))]
            ysp = self._draw_yield()
            exh: tuple | None = None
            if kind == "tcp" and self.perturb and world.chance("exhaust", 1, 4):
                exh = (1 + world.choose("exhaust_n", CAPACITY_MAX_PENDING), CAPACITY_ERRNOS[world.choose("exhaust_errno", len(CAPACITY_ERRNOS))])
            self.programs[t].append((op, ysp, exh))
        if kind == "tcp":
            self.net.fault_plan = self._accept_fault
        self.registered: dict[int, SimSocket] = {}  # listener sockets the server exposed through get_sockets()
        self.bg: list[asyncio.Task] = []
        self.blocked_in_serve = [False] * self.ntasks
        self.current: dict[str, str] = {}  # actor -> call in progress (for the no-deadlock message)
        self.nclients = 0
        self.srv: Any = None
        world.notes.update(harness=self.harness, host=self.host, programs=[[op if exh is None else f"{exh[1]}x{exh[0]}+{op}" for op, _, exh in p] for p in self.programs], init_delay=self.init_delay, handle_delay=self.handle_delay, quit_delay=self.quit_delay, dns_delay=self.backend.getaddrinfo_delay, perturb=self.perturb)

    # -------------------------------------------------- yields
    def _draw_yield(self) -> tuple:
        if not self.perturb:
            return ("none", 0)
        y = self.world.choose("yield", 6)
        if y == 0:
            return ("none", 0)
        if y <= 3:
            return ("spin", y)
        if y == 4:
            return ("sleep", 1)
        return ("sleep", 2 + self.world.choose("yield_len", 7))

    async def _yield(self, spec: tuple) -> None:
        if spec[0] == "spin":
            self.world.fault("delay")
            for _ in range(spec[1]):
                await asyncio.sleep(0)
        elif spec[0] == "sleep":
            self.world.fault("delay")
            await asyncio.sleep(spec[1] / 64.0)

    # -------------------------------------------------- accept-capacity fault
    def exhaust(self, actor: str, exh: tuple | None) -> None:
        if exh is None:
            return
        n, name = exh
        n = min(n, CAPACITY_MAX_PENDING - len(self.accept_faults), CAPACITY_MAX_TOTAL - self.accept_faults_fired - len(self.accept_faults))
        if n <= 0:
            return
        self.world.log("exhaust", actor, name, n)
        self.accept_faults.extend([name] * n)

    def _accept_fault(self, sock: SimSocket, op: str) -> OSError | None:
        """net-wide per-call fault plan: only accept() of the server's listeners is ever faulted"""
        if op != "accept" or not self.accept_faults:
            return None
        name = self.accept_faults.pop(0)
        self.accept_faults_fired += 1
        self.pause_until = self.world.now + CAPACITY_PAUSE
        self.world.fault("accept_error")
        self.world.probe("accept_capacity_error" + ("" if sock.accept_q else "@empty-queue"))
        self.world.log("accept_fails", sock.label, name)
        code = getattr(_errno, name)
        return OSError(code, os.strerror(code))

    def register_service_quit(self, exit_stack: Any, server: Any) -> None:
        """service tear-down that takes virtual time and is protected from cancellation ("flush state before quitting"): it is
        part of serve_forever's tear-down, so it is lifecycle evidence that serving has NOT fully stopped yet"""
        if not self.quit_delay:
            return
        run = self
        backend = server.backend()

        async def slow_quit() -> None:
            run.rec.handler("service-quit-begin")
            await asyncio.sleep(run.quit_delay)
            run.rec.handler("service-quit-end")

        async def service_quit() -> None:
            await backend.ignore_cancellation(slow_quit())

        exit_stack.push_async_callback(service_quit)

    # -------------------------------------------------- server + handler
    def make_server(self) -> Any:
        run = self

        async def _handle_common(client: Any):
            req = yield
            run.rec.handler("request")
            if run.handle_delay:
                await asyncio.sleep(run.handle_delay)
                run.rec.handler("reply")
            await client.send_packet(req.upper())

        if self.kind == "tcp":

            class TCPHandler(AsyncStreamRequestHandler):
                async def service_init(self, exit_stack: Any, server: Any) -> None:
                    run.register_service_quit(exit_stack, server)
                    if run.init_delay:
                        await asyncio.sleep(run.init_delay)

                def handle(self, client: Any):
                    return _handle_common(client)

            return AsyncTCPNetworkServer(self.host, PORT, StreamProtocol(StringLineSerializer()), TCPHandler(), backend=self.backend)

        class UDPHandler(AsyncDatagramRequestHandler):
            async def service_init(self, exit_stack: Any, server: Any) -> None:
                run.register_service_quit(exit_stack, server)
                if run.init_delay:
                    await asyncio.sleep(run.init_delay)

            def handle(self, client: Any):
                return _handle_common(client)

        return AsyncUDPNetworkServer(self.host, PORT, DatagramProtocol(StringLineSerializer()), UDPHandler(), backend=self.backend)

    # -------------------------------------------------- sockets
    def server_sockets(self) -> list[SimSocket]:
        return [s for s in self.world.sockets if not s.label.startswith("cli")]

    def snapshot_listeners(self) -> None:
        try:
            proxies = self.srv.get_sockets()
        except Exception:  # pragma: no cover
            return
        for p in proxies:
            fd = p.fileno()
            s = self.world.fd_table.get(fd)
            if s is not None:
                self.registered[fd] = s

    def open_listener(self) -> SimSocket | None:
        for s in self.server_sockets():
            if s.sim_closed or s.sockname is None:
                continue
            if self.kind == "tcp" and not s.listening:
                continue
            return s
        return None

    # -------------------------------------------------- calls
    async def _call(self, actor: str, kind: str, fn: Callable[[int], Awaitable[Any]], table: dict[str, str]) -> str:
        self.snapshot_listeners()
        opid = self.rec.invoke(actor, kind)
        self.current[actor] = f"{kind}#{opid}"
        try:
            await fn(opid)
        except asyncio.CancelledError:
            raise
        except Exception as exc:
            name = type(exc).__name__
            outcome = table.get(name, name)
            detail = f"{name}: {exc}"[:300]
            if isinstance(exc, BaseExceptionGroup):  # message only: what the task group actually died of
                detail += " <- " + "; ".join(f"{type(e).__name__}: {e}"[:120] for e in _leaves(exc)[:4])
        else:
            outcome = L.NONE
            detail = ""
        self.current.pop(actor, None)
        self.snapshot_listeners()
        self.rec.ret(actor, opid, outcome, detail)
        return outcome

    async def do_serve(self, actor: str) -> str:
        return await self._call(actor, L.SERVE, lambda opid: self.srv.serve_forever(is_up_event=_UpEvent(self.rec, opid)), SERVE_ERRORS)

    async def do_shutdown(self, actor: str) -> str:
        if self.world.now < self.pause_until and self.rec.model.possibly(L.SERVING):
            self.world.probe("shutdown_in_accept_capacity_pause")
        out = await self._call(actor, L.SHUTDOWN, lambda opid: self.srv.shutdown(), {})
        # "... and is_serving() is false": evaluated in the same task step as the return
        self.rec.is_serving(actor, bool(self.srv.is_serving()))
        return out

    async def do_close(self, actor: str) -> str:
        # server_close() overlapping a serve_forever() start-up (formerly ignored: fixed in /repo 9f1317d) is generated in every run
        out = await self._call(actor, L.CLOSE, lambda opid: self.srv.server_close(), {"BusyResourceError": L.BUSY_ERROR})
        if out == L.NONE:
            still = sorted(s.label for s in self.registered.values() if not s.sim_closed)
            if still:
                self.world.fail(Violation("listeners-closed-after-server_close", f"server_close() returned but listener sockets {still} are still open (t={self.world.now})", key=f"C18/{self.harness}/listeners-open-after-close"))
        return out

    def do_is_serving(self, actor: str) -> None:
        self.rec.is_serving(actor, bool(self.srv.is_serving()))
        self.world.progress(1)

    async def do_client(self, actor: str) -> str:
        self.nclients += 1
        n = self.nclients
        opid = self.rec.invoke(actor, L.CLIENT)
        self.current[actor] = f"client#{opid}"
        request = f"req{n}-{actor}"
        expected = request.upper().encode() + (b"\n" if self.kind == "tcp" else b"")
        got = await (self._tcp_request(n, request, expected) if self.kind == "tcp" else self._udp_request(n, request, expected))
        self.current.pop(actor, None)
        if got is not None and got != expected:
            self.world.fail(Violation("client-gets-the-right-answer", f"client {n} sent {request!r} and received {got!r}", key=f"C18/{self.harness}/wrong-answer"))
        outcome = L.SERVED if got == expected else L.FAILED
        self.rec.ret(actor, opid, outcome)
        return outcome

    async def _tcp_request(self, n: int, request: str, expected: bytes) -> bytes | None:
        lst = self.open_listener()
        if lst is None:
            return None
        try:
            sock = self.net.connect_to_listener(lst, label=f"cli{n}")
        except ConnectionRefusedError:
            return None
        peer = Peer(self.world, sock)
        done = asyncio.get_running_loop().create_future()

        def on_visible() -> None:
            peer._on_visible()
            if not done.done() and (len(peer.received) >= len(expected) or peer.saw_fin or peer.saw_rst):
                done.set_result(None)

        assert sock.rx_pipe is not None
        sock.rx_pipe.on_visible = on_visible
        peer.write(request.encode() + b"\n")
        try:
            async with asyncio.timeout(CLIENT_WAIT):
                await done
        except TimeoutError:
            pass
        got = bytes(peer.received)
        sock.rx_pipe.on_visible = None
        peer.close()
        return got or None

    async def _udp_request(self, n: int, request: str, expected: bytes) -> bytes | None:
        target = self.open_listener()
        if target is None:
            return None
        cli = SimSocket(self.net, target.family, _socket.SOCK_DGRAM, 0, f"cli{n}")
        self.net.bind(cli, (target.getsockname()[0], 0))
        # 1-3 datagrams from the same address: the later ones are queued behind the (possibly slow) handler of the first, so a
        # shutdown issued meanwhile meets a client whose queue is not empty
        burst = 1 + self.world.choose("udp.burst", 3)
        if burst > 1:
            self.world.probe("udp_client_burst")
        for _ in range(burst):
            cli.sendto(request.encode(), target.getsockname())
        deadline = self.world.now + CLIENT_WAIT
        while not cli.dgram_q and self.world.now < deadline:
            await asyncio.sleep(1 / 64.0)
        got = cli.dgram_q[0][0] if cli.dgram_q else None
        cli.close()
        return got

    # -------------------------------------------------- caller tasks
    async def caller(self, idx: int) -> None:
        actor = f"t{idx}"
        for op, ysp, exh in self.programs[idx]:
            await self._yield(ysp)
            if self.world.fatal is not None:
                return
            self.exhaust(actor, exh)
            if op == "serve":
                self.blocked_in_serve[idx] = True
                try:
                    await self.do_serve(actor)
                finally:
                    self.blocked_in_serve[idx] = False
            elif op == "serve_bg":
                self.bg.append(asyncio.create_task(self.do_serve(f"{actor}.bg{len(self.bg)}"), name=f"c18-{actor}-bg{len(self.bg)}"))
                await asyncio.sleep(0)
            elif op == "shutdown":
                await self.do_shutdown(actor)
            elif op == "close":
                await self.do_close(actor)
            elif op == "is_serving":
                self.do_is_serving(actor)
            elif op == "client":
                await self.do_client(actor)
            else:  # pragma: no cover
                raise HarnessError(op)

    # -------------------------------------------------- bounded waits
    async def bounded(self, what: str, aw: Awaitable[Any]) -> Any:
        try:
            async with asyncio.timeout(CALL_BOUND):
                return await aw
        except TimeoutError:
            self.no_progress(what)

    def no_progress(self, what: str) -> None:
        pend = ", ".join(f"{a}:{c}" for a, c in sorted(self.current.items()))
        self.world.fail(
            Violation(
                "no-call-hangs",
                f"{what} did not finish within {CALL_BOUND} virtual seconds although no further call was pending; calls in progress: [{pend}]; model states {self.rec.model.possible_states()}; history: {self.rec.model.history[-30:]}",
                key=f"C18/{self.harness}/hang/{what.split('#')[0]}",
            )
        )

    async def quiesce(self, tasks: list[asyncio.Task]) -> bool:
        """wait until every caller task is finished or parked inside an inline serve_forever; True when all are finished"""
        deadline = self.world.now + CALL_BOUND
        while True:
            if self.world.fatal is not None:
                raise self.world.fatal
            for t in tasks + self.bg:
                if t.done() and not t.cancelled() and t.exception() is not None:
                    raise t.exception()  # type: ignore[misc]
            if all(t.done() or self.blocked_in_serve[i] for i, t in enumerate(tasks)):
                return all(t.done() for t in tasks)
            if self.world.now > deadline:
                self.no_progress("caller-task")
            await asyncio.sleep(1 / 64.0)

    async def main(self) -> None:
        loop = asyncio.get_running_loop()
        if self.perturb == 2:
            swarm_selector(self.world, loop.sim_selector)  # type: ignore[attr-defined]
        self.srv = self.make_server()
        tasks = [asyncio.create_task(self.caller(i), name=f"c18-t{i}") for i in range(self.ntasks)]
        try:
            # ---- phase 1: the generated history; parked serve_forever calls are released by the epilogue's shutdowns
            for _round in range(16):
                if await self.quiesce(tasks):
                    break
                await self.bounded("shutdown#epi", self.do_shutdown("epi"))
                await asyncio.sleep(1 / 64.0)
            else:
                raise HarnessError("caller tasks still parked after 16 shutdowns")
            # ---- background serve_forever calls still running
            await self.bounded("shutdown#epi", self.do_shutdown("epi"))
            for t in list(self.bg):
                await self.bounded("serve_forever#bg", asyncio.wait([t]))
            await self.quiesce(tasks)
            # ---- a stopped-not-closed server accepts and answers a client after the next serve_forever
            if not self.rec.model.close_invoked:
                if self.accept_faults:  # descriptors are available again: the restarted server has CLIENT_WAIT to answer
                    self.world.log("exhaust", "epi", "over", len(self.accept_faults))
                    self.accept_faults.clear()
                t = asyncio.create_task(self.do_serve("epi.bg"), name="c18-epi-bg")
                self.bg.append(t)
                deadline = self.world.now + CALL_BOUND
                while not self.rec.model.certainly(L.SERVING) and not t.done() and self.world.now < deadline:
                    await asyncio.sleep(1 / 64.0)
                await self.bounded("client#epi", self.do_client("epi"))
                await self.bounded("shutdown#epi", self.do_shutdown("epi"))
                await self.bounded("serve_forever#epi", asyncio.wait([t]))
                await self.quiesce(tasks)
            # ---- close; a closed server refuses to serve; nothing is left open
            out = await self.bounded("server_close#epi", self.do_close("epi"))
            if out != L.NONE:  # nothing is starting any more: Busy is impossible (the model has already said so)
                raise HarnessError(f"epilogue server_close ended with {out}")
            await self.bounded("serve_forever#epi", self.do_serve("epi"))
            self.do_is_serving("epi")
            for _ in range(6):
                await asyncio.sleep(1 / 64.0)
            leaked = sorted(s.label for s in self.server_sockets() if not s.sim_closed)
            if leaked:
                never = all(s.sim_fd not in self.registered for s in self.server_sockets() if not s.sim_closed)
                site = "unregistered-listener-socket-leaked" if never else "socket-leak-at-end"
                self.world.fail(Violation("listeners-closed-after-server_close", f"sockets created by the server are still open after server_close() and a settled loop: {leaked} (ever exposed by get_sockets(): {not never}); history: {self.rec.model.history[-30:]}", key=f"C18/{self.harness}/{site}"))
        finally:
            for t in tasks + self.bg:
                t.cancel()
            await asyncio.gather(*tasks, *self.bg, return_exceptions=True)
        for t in tasks + self.bg:
            if not t.cancelled() and t.exception() is not None:
                raise t.exception()  # type: ignore[misc]


def _h(world: World, kind: str) -> None:
    run = Run(world, kind)
    try:
        with sim_sockets(run.net):
            run_async(world, run.main)
    except Deadlock as exc:
        if isinstance(world.fatal, Violation):
            raise world.fatal
        pend = ", ".join(f"{a}:{c}" for a, c in sorted(run.current.items()))
        call = sorted(run.current.values())[0].split("#")[0] if run.current else "none"
        raise Violation("no-call-hangs", f"deadlock: {exc}; calls in progress: [{pend}]; model states {run.rec.model.possible_states()}; history: {run.rec.model.history[-30:]}", key=f"C18/{run.harness}/hang/{call}") from None
    except BaseException:
        # an oracle that fired inside a server task travels outwards wrapped in the server's exception groups
        if isinstance(world.fatal, Violation):
            raise world.fatal from None
        raise
    finally:
        for s in world.sockets:  # deterministic: no later __del__ may append to the trace
            if not s.sim_closed:
                s.close()
    world.probe(f"model-peak-configs>={min(run.rec.model.peak, 64) // 8 * 8}")


# ================================================================================================ THREADED half
# StandaloneTCPNetworkServer / StandaloneUDPNetworkServer (servers/_base.py BaseStandaloneNetworkServerImpl) and
# NetworkServerThread, driven by 1-3 simulated threads under the baton scheduler (vsim.threads).  Same reference machine
# (atomic=(): where a call takes effect between invoke and return is unknown), same extra clauses.
THREAD_OPS = ("serve_bg", "shutdown", "client", "is_serving", "close", "serve", "serve_nst", "client", "shutdown_t", "close", "join_nst", "serve_nst", "join_nst_t")
SHUTDOWN_TIMEOUTS = (0.0, 1 / 64.0, 8 / 64.0)
JOIN_TIMEOUTS = (1 / 64.0, 8 / 64.0, 1.0)


class _RecordedServer:
    """The standalone server seen by the callers (and by NetworkServerThread): every lifecycle call is recorded as an
    invoke/return pair of the history.  Not a subclass on purpose: it only forwards."""

    def __init__(self, run: "ThreadRun", srv: Any, actor_of: Callable[[], str]):
        self._run = run
        self._srv = srv
        self._actor_of = actor_of

    def _evidence(self) -> None:
        """a standalone server owns listener sockets only between the set-up and the tear-down of ONE serve_forever call"""
        run = self._run
        if any(not s.sim_closed for s in run.server_sockets()):
            run.rec.not_stopped("listener-open")

    def serve_forever(self, *, is_up_event: Any = None, **kw: Any) -> None:
        run, rec, actor = self._run, self._run.rec, self._actor_of()
        self._evidence()
        opid = rec.invoke(actor, L.SERVE)
        run.current[actor] = f"serve_forever#{opid}"

        class Up:
            def set(_self) -> None:
                rec.up(opid)
                run.up_actors.add(actor)
                if is_up_event is not None:
                    is_up_event.set()

        try:
            self._srv.serve_forever(is_up_event=Up(), **kw)
        except ThreadAbort:
            raise
        except Exception as exc:
            rec._live()
            name = type(exc).__name__
            run.current.pop(actor, None)
            rec.ret(actor, opid, SERVE_ERRORS.get(name, name), f"{name}: {exc}"[:300])
            run.ret_actors.add(actor)
            raise
        rec._live()
        run.current.pop(actor, None)
        rec.ret(actor, opid, L.NONE)
        run.ret_actors.add(actor)

    def shutdown(self, timeout: float | None = None) -> None:
        run, rec, actor = self._run, self._run.rec, self._actor_of()
        self._evidence()
        opid = rec.invoke(actor, L.SHUTDOWN)
        run.current[actor] = f"shutdown#{opid}"
        t0 = run.world.now
        try:
            self._srv.shutdown(timeout) if timeout is not None else self._srv.shutdown()
        except ThreadAbort:
            raise
        except Exception as exc:
            rec._live()
            name = type(exc).__name__
            run.current.pop(actor, None)
            rec.ret(actor, opid, name, f"{name}: {exc}"[:300])
            raise
        rec._live()
        run.current.pop(actor, None)
        # shutdown(timeout) returns None whether or not it gave up waiting: it certainly did not give up when less virtual time
        # than the timeout has passed
        gave_up = timeout is not None and run.world.now - t0 >= timeout
        rec.ret(actor, opid, L.TIMED_OUT if gave_up else L.NONE)

    def server_close(self) -> None:
        run, rec, actor = self._run, self._run.rec, self._actor_of()
        self._evidence()
        opid = rec.invoke(actor, L.CLOSE)
        run.current[actor] = f"server_close#{opid}"
        try:
            self._srv.server_close()
        except ThreadAbort:
            raise
        except Exception as exc:
            rec._live()
            name = type(exc).__name__
            run.current.pop(actor, None)
            rec.ret(actor, opid, {"BusyResourceError": L.BUSY_ERROR}.get(name, name), f"{name}: {exc}"[:300])
            raise
        rec._live()
        run.current.pop(actor, None)
        rec.ret(actor, opid, L.NONE)
        run.after_close(actor)

    def is_serving(self) -> bool:
        run, rec, actor = self._run, self._run.rec, self._actor_of()
        self._evidence()
        opid = rec.invoke(actor, L.IS_SERVING)
        run.current[actor] = f"is_serving#{opid}"
        value = bool(self._srv.is_serving())
        rec._live()
        run.current.pop(actor, None)
        rec.ret(actor, opid, str(value))
        return value


class ThreadRun:
    def __init__(self, world: World, kind: str):
        self.world = world
        self.kind = kind
        self.harness = f"thr-{kind}"
        self.net = SimNet(world)
        self.backend = SimAsyncIOBackend(self.net, hosts={"sim.host": [(_socket.AF_INET, "10.0.0.1")]})
        self.rec = LifecycleRecorder(world, self.harness, atomic=())
        self.switch_den = world.pick("switch_den", [6, 3, 2])
        self.fine = bool(world.choose("fine", 2))
        self.max_preemptions = world.choose("max_preemptions", 4) if self.fine else 0
        self.preempt_den = world.pick("preempt_den", [30, 10]) if self.fine else 0
        self.host: Any = world.pick("host", ["127.0.0.1", "sim.host", ["127.0.0.1", "sim.host"]])
        self.perturb = world.choose("perturb", 3)
        if self.perturb:
            self.backend.getaddrinfo_delay = (0.0, 1 / 64.0, 3 / 64.0)[world.choose("dns_delay", 3)]
            self.init_delay = (0.0, 0.0, 1 / 64.0, 4 / 64.0)[world.choose("init_delay", 4)]
            self.handle_delay = (0.0, 0.0, 2 / 64.0, 10 / 64.0)[world.choose("handle_delay", 4)]
            self.quit_delay = (0.0, 0.0, 3 / 64.0, 12 / 64.0)[world.choose("quit_delay", 4)]
        else:
            self.init_delay = self.handle_delay = self.quit_delay = 0.0
        if self.backend.getaddrinfo_delay or self.init_delay or self.handle_delay or self.quit_delay:
            world.fault("delay")
        self.ntasks = 1 + world.choose("ntasks", 3)
        nops = 1 + world.choose("nops", 7)
        self.programs: list[list[tuple]] = [[] for _ in range(self.ntasks)]
        for _ in range(nops):
            t = world.choose("task", self.ntasks)
            op = THREAD_OPS[world.choose("op", len(THREAD_OPS))]
            arg = SHUTDOWN_TIMEOUTS[world.choose("shutdown_timeout", len(SHUTDOWN_TIMEOUTS))] if op == "shutdown_t" else None
            if op == "join_nst_t":
                arg = JOIN_TIMEOUTS[world.choose("join_timeout", len(JOIN_TIMEOUTS))]
            self.programs[t].append((op, arg, self._draw_yield()))
        self.current: dict[str, str] = {}
        self.parked = [False] * self.ntasks
        self.done = [False] * self.ntasks
        self.nsts: list[dict] = []  # NetworkServerThread objects: {"t", "name", "start_returned", "finished"}
        self.up_actors: set[str] = set()  # actors whose serve_forever signalled "up"
        self.ret_actors: set[str] = set()  # actors whose serve_forever has returned / raised
        self.bg: list[Any] = []  # every thread started for a serve_forever
        self.nclients = 0
        self.actor_by_ident: dict[int, str] = {}
        world.notes.update(harness=self.harness, host=self.host, programs=[[op for op, _a, _y in p] for p in self.programs], switch_den=self.switch_den, fine=self.fine, max_preemptions=self.max_preemptions, preempt_den=self.preempt_den, init_delay=self.init_delay, handle_delay=self.handle_delay, quit_delay=self.quit_delay, dns_delay=self.backend.getaddrinfo_delay)

    def _draw_yield(self) -> int:
        if not self.perturb:
            return 0
        return (0, 0, 1, 2, 8)[self.world.choose("yield", 5)]  # 1/64 s units of virtual sleep before the call

    # -------------------------------------------------- plumbing
    def actor(self) -> str:
        import threading

        return self.actor_by_ident.get(threading.get_ident(), "main")

    def register(self, name: str) -> None:
        import threading

        self.actor_by_ident[threading.get_ident()] = name

    def register_service_quit(self, exit_stack: Any, server: Any) -> None:
        """service tear-down that takes virtual time and is protected from cancellation ("flush state before quitting"): it is
        part of serve_forever's tear-down, so it is lifecycle evidence that serving has NOT fully stopped yet"""
        if not self.quit_delay:
            return
        run = self
        backend = server.backend()

        async def slow_quit() -> None:
            run.rec.handler("service-quit-begin")
            await asyncio.sleep(run.quit_delay)
            run.rec.handler("service-quit-end")

        async def service_quit() -> None:
            await backend.ignore_cancellation(slow_quit())

        exit_stack.push_async_callback(service_quit)

    def make_server(self) -> Any:
        from easynetwork.servers.standalone_tcp import StandaloneTCPNetworkServer
        from easynetwork.servers.standalone_udp import StandaloneUDPNetworkServer

        run = self
        world = self.world

        async def _handle_common(client: Any):
            req = yield
            run.rec.handler("request")
            if run.handle_delay:
                await asyncio.sleep(run.handle_delay)
                run.rec.handler("reply")
            await client.send_packet(req.upper())

        opts = {"loop_factory": lambda: SimEventLoop(world)}
        if self.kind == "tcp":

            class TCPHandler(AsyncStreamRequestHandler):
                async def service_init(self, exit_stack: Any, server: Any) -> None:
                    run.register_service_quit(exit_stack, server)
                    if run.init_delay:
                        await asyncio.sleep(run.init_delay)

                def handle(self, client: Any):
                    return _handle_common(client)

            return StandaloneTCPNetworkServer(self.host, PORT, StreamProtocol(StringLineSerializer()), TCPHandler(), backend=self.backend, runner_options=opts)

        class UDPHandler(AsyncDatagramRequestHandler):
            async def service_init(self, exit_stack: Any, server: Any) -> None:
                run.register_service_quit(exit_stack, server)
                if run.init_delay:
                    await asyncio.sleep(run.init_delay)

            def handle(self, client: Any):
                return _handle_common(client)

        return StandaloneUDPNetworkServer(self.host, PORT, DatagramProtocol(StringLineSerializer()), UDPHandler(), backend=self.backend, runner_options=opts)

    def server_sockets(self) -> list[SimSocket]:
        return [s for s in self.world.sockets if not s.label.startswith("cli")]

    def open_listener(self) -> SimSocket | None:
        for s in self.server_sockets():
            if s.sim_closed or s.sockname is None:
                continue
            if self.kind == "tcp" and not s.listening:
                continue
            return s
        return None

    def after_close(self, actor: str) -> None:
        """listeners are closed after server_close: immediately when nothing can still be winding down (otherwise the
        tear-down of the running serve_forever closes them; the end-of-run check covers that)"""
        if not self.rec.model.certainly(L.STOPPED, L.CLOSED):
            return
        still = sorted(s.label for s in self.server_sockets() if not s.sim_closed)
        if still:
            self.rec.fail(Violation("listeners-closed-after-server_close", f"server_close() returned, no serve_forever can be running any more, but sockets {still} created by the server are still open; history: {self.rec.model.history[-30:]}", key=f"C18/{self.harness}/listeners-open-after-close"))

    # -------------------------------------------------- client
    def do_client(self) -> str:
        actor = self.actor()
        self.nclients += 1
        n = self.nclients
        opid = self.rec.invoke(actor, L.CLIENT)
        self.current[actor] = f"client#{opid}"
        request = f"req{n}-{actor}"
        expected = request.upper()
        got: Any = None
        lst = self.open_listener()
        if lst is not None:
            client: Any = None
            try:
                if self.kind == "tcp":
                    from easynetwork.clients.tcp import TCPNetworkClient

                    try:
                        sock = self.net.connect_to_listener(lst, label=f"cli{n}")
                    except ConnectionRefusedError:
                        sock = None
                    if sock is not None:
                        client = TCPNetworkClient(sock, StreamProtocol(StringLineSerializer()))
                else:
                    from easynetwork.clients.udp import UDPNetworkClient

                    sock = SimSocket(self.net, lst.family, _socket.SOCK_DGRAM, 0, f"cli{n}")
                    self.net.bind(sock, (lst.getsockname()[0], 0))
                    sock.connect(lst.getsockname())
                    client = UDPNetworkClient(sock, DatagramProtocol(StringLineSerializer()))
                if client is not None:
                    try:
                        client.send_packet(request)
                        got = client.recv_packet(timeout=CLIENT_WAIT)
                    except (TimeoutError, OSError):
                        got = None
            finally:
                if client is not None:
                    client.close()
        self.rec._live()
        self.current.pop(actor, None)
        if got is not None and got != expected:
            self.rec.fail(Violation("client-gets-the-right-answer", f"client {n} sent {request!r} and received {got!r}", key=f"C18/{self.harness}/wrong-answer"))
        outcome = L.SERVED if got == expected else L.FAILED
        self.rec.ret(actor, opid, outcome)
        return outcome

    # -------------------------------------------------- caller threads
    def spawn_serve(self, name: str, nst: bool) -> Any:
        import threading

        from easynetwork.servers.threads_helper import NetworkServerThread

        run = self
        if nst:

            info: dict = {"name": name, "start_returned": False, "finished": False}

            class Recorded(NetworkServerThread):
                def run(self) -> None:
                    run.register(name)
                    try:
                        super().run()
                    except ThreadAbort:
                        raise
                    except Exception:
                        pass  # already recorded as the outcome of serve_forever
                    finally:
                        if run.rec.sched is None or not run.rec.sched.aborting:
                            info["finished"] = True
                            run.world.log("nst", name, "finished")

            t: Any = Recorded(self.srv, name=name)
            info["t"] = t
            self.bg.append(t)
            self.nsts.append(info)
            me = self.actor()
            self.current[me] = "NetworkServerThread.start"
            self.world.log("nst", name, "start")
            t.start()  # contract: returns once the server is ready for accepting requests (or serve_forever has ended)
            self.rec._live()
            self.current.pop(me, None)
            info["start_returned"] = True
            self.world.log("nst", name, "start-returned")
            if name not in self.up_actors and name not in self.ret_actors:
                self.rec.fail(Violation("NetworkServerThread.start-waits-until-the-server-is-up", f"NetworkServerThread.start() of {name} returned but its serve_forever has neither signalled 'up' nor ended; history: {self.rec.model.history[-20:]}", key=f"C18/{self.harness}/nst/start-returned-before-up"))
            return t

        def target() -> None:
            run.register(name)
            try:
                run.srv.serve_forever()
            except ThreadAbort:
                raise
            except Exception:
                pass

        t = threading.Thread(target=target, name=name)
        self.bg.append(t)
        t.start()
        return t

    def join_nst(self, idx: int | None, timeout: float | None, info: dict | None = None) -> None:
        """NetworkServerThread.join(timeout): shuts the server down, then waits for the thread; returns only after the thread ended
        (untimed) / within `timeout` virtual seconds in total, and before that only if the thread ended (timed)."""
        me = self.actor()
        if info is None:
            if not self.nsts:
                self.world.log("nst", me, "join-skipped")
                return
            info = self.nsts[-1]
        name = info["name"]
        started = info["start_returned"]
        was_up = name in self.up_actors and name not in self.ret_actors
        self.world.log("nst", me, "join", name, -1.0 if timeout is None else timeout)
        self.current[me] = f"join#{name}"
        t0 = self.world.now
        c0 = self.world.creep_iterations
        # Untimed join of a thread whose server is not up yet (or is already over) may legitimately wait for somebody else's
        # shutdown (shutdown of a server that is not running is a no-op): then the epilogue may help.  When the server IS up, join()
        # must stop it by itself.
        if idx is not None and timeout is None and not was_up:
            self.parked[idx] = True
        try:
            try:
                info["t"].join(timeout)
            finally:
                if idx is not None:
                    self.parked[idx] = False
        except RuntimeError as exc:
            self.rec._live()
            self.current.pop(me, None)
            if not started and "before it is started" in str(exc):
                self.world.log("nst", me, "join-not-started")
                return
            self.rec.fail(Violation("NetworkServerThread.join-contract", f"join({timeout}) of {name} raised RuntimeError: {exc}", key=f"C18/{self.harness}/nst/join-raises"))
        self.rec._live()
        self.current.pop(me, None)
        elapsed = self.world.now - t0
        ended = info["finished"]
        self.world.log("nst", me, "join-returned", name, ended)
        self.world.progress(1)
        if timeout is None:
            if not ended or info["t"].is_alive():
                self.rec.fail(Violation("NetworkServerThread.join-returns-after-the-thread-ended", f"join() of {name} returned but the thread has not ended (finished={ended}, is_alive={info['t'].is_alive()}); history: {self.rec.model.history[-20:]}", key=f"C18/{self.harness}/nst/join-returned-early"))
        else:
            # shutdown(timeout) takes the bootstrap lock without a timeout: a serve_forever in its activation window (name resolution
            # delay) can hold it for that long; nothing else takes virtual time
            slack = 2 * self.backend.getaddrinfo_delay
            # virtual CPU time (DESIGN 2.1): a loop that spins (cancelled scope around a shielded tear-down) lets the clock creep,
            # possibly while this thread is runnable but not scheduled: such time is not the callee's
            slack += (self.world.creep_iterations - c0) * self.world.CREEP
            if elapsed > timeout + slack + 1e-9:
                self.rec.fail(Violation("NetworkServerThread.join-timeout-is-a-total-budget", f"join({timeout}) of {name} took {elapsed} virtual seconds (the time taken by shutdown() must be subtracted)", key=f"C18/{self.harness}/nst/join-timeout-exceeded"))
            if elapsed < timeout - 1e-9 and not ended:
                self.rec.fail(Violation("NetworkServerThread.join-returns-after-the-thread-ended", f"join({timeout}) of {name} returned after {elapsed} s < timeout although the thread has not ended; history: {self.rec.model.history[-20:]}", key=f"C18/{self.harness}/nst/join-returned-early"))

    def caller(self, idx: int) -> None:
        import time

        actor = f"t{idx}"
        self.register(actor)
        try:
            for op, arg, ysp in self.programs[idx]:
                if ysp:
                    self.world.fault("delay")
                    time.sleep(ysp / 64.0)
                if self.world.fatal is not None:
                    return
                try:
                    if op == "serve":
                        self.parked[idx] = True
                        try:
                            self.srv.serve_forever()
                        finally:
                            self.parked[idx] = False
                    elif op == "serve_bg":
                        self.spawn_serve(f"{actor}.bg{len(self.bg)}", nst=False)
                    elif op == "serve_nst":
                        self.spawn_serve(f"{actor}.nst{len(self.bg)}", nst=True)
                    elif op == "shutdown":
                        self.srv.shutdown()
                        self.srv.is_serving()
                    elif op == "shutdown_t":
                        self.srv.shutdown(arg)
                    elif op == "close":
                        self.srv.server_close()  # also while a serve_forever is in its set-up window (BusyResourceError then)
                    elif op == "is_serving":
                        self.srv.is_serving()
                    elif op == "client":
                        self.do_client()
                    elif op == "join_nst":
                        self.join_nst(idx, None)
                    elif op == "join_nst_t":
                        self.join_nst(idx, arg)
                    else:  # pragma: no cover
                        raise HarnessError(op)
                except ThreadAbort:
                    raise
                except Exception:
                    pass  # recorded as the call's outcome; the model decides whether it was allowed
        finally:
            self.done[idx] = True

    # -------------------------------------------------- main thread = epilogue actor
    def no_progress(self, what: str) -> None:
        pend = ", ".join(f"{a}:{c}" for a, c in sorted(self.current.items()))
        self.rec.fail(
            Violation(
                "no-call-hangs",
                f"{what} did not finish within {CALL_BOUND} virtual seconds although no further call was pending; calls in progress: [{pend}]; model states {self.rec.model.possible_states()}; history: {self.rec.model.history[-30:]}",
                key=f"C18/{self.harness}/hang/pending={self.pending_kinds()}",
            )
        )

    def pending_kinds(self) -> str:
        """structural part of a hang key: which kinds of calls were in progress"""
        kinds = "+".join(sorted({c.split("#")[0] for c in self.current.values()})) or "none"
        # a pending shutdown that has already seen "its" serve_forever return: it now waits for a restarted server
        hist = self.rec.model.history
        for c in self.current.values():
            if c.startswith("shutdown#"):
                opid = int(c.split("#")[1])
                inv = next((i for i, e in enumerate(hist) if e[1:4] == ("inv", opid, L.SHUTDOWN)), None)
                if inv is not None and any(e[1] == "ret" and e[3] == L.SERVE and e[4] == L.NONE for e in hist[inv:]):
                    return kinds + "/restarted"
        return kinds

    def wait_for(self, what: str, pred: Callable[[], bool]) -> None:
        import time

        deadline = self.world.now + CALL_BOUND
        while not pred():
            if self.world.fatal is not None:
                raise self.world.fatal
            if self.world.now > deadline:
                self.no_progress(what)
            time.sleep(1 / 64.0)

    def stop_all(self) -> None:
        """a serve_forever that was queued behind the locks of the previous one only starts once that one has finished:
        keep shutting down until every serve_forever thread has ended"""
        import time

        for _round in range(12):
            self.srv.shutdown()
            deadline = self.world.now + 1.0
            while any(t.is_alive() for t in self.bg) and self.world.now < deadline:
                if self.world.fatal is not None:
                    raise self.world.fatal
                time.sleep(1 / 64.0)
            if not any(t.is_alive() for t in self.bg):
                self.srv.is_serving()
                return
        self.no_progress("serve_forever#bg")

    def main(self) -> None:
        import threading

        self.register("epi")
        raw = self.make_server()
        self.srv = _RecordedServer(self, raw, self.actor)
        callers = [threading.Thread(target=self.caller, args=(i,), name=f"c18-t{i}") for i in range(self.ntasks)]
        for t in callers:
            t.start()
        quiet = lambda: all(self.done[i] or self.parked[i] for i in range(self.ntasks))  # noqa: E731
        import time

        for _round in range(64):
            self.wait_for("caller-thread", quiet)
            if all(self.done):
                break
            self.srv.shutdown()  # a no-op when the parked serve_forever has not got past the locks yet: let it run
            time.sleep(1 / 64.0)
        else:
            self.no_progress("caller-thread")
        self.stop_all()
        if not self.rec.model.close_invoked:
            # a stopped-not-closed server accepts and answers a client after the next serve_forever
            t = self.spawn_serve("epi.bg", nst=False)
            self.wait_for("serve_forever#up", lambda: self.rec.model.certainly(L.SERVING) or not t.is_alive())
            self.do_client()
            self.stop_all()
        self.srv.server_close()
        try:
            self.srv.serve_forever()
        except Exception:
            pass
        self.srv.is_serving()
        leaked = sorted(s.label for s in self.server_sockets() if not s.sim_closed)
        if leaked:
            self.rec.fail(Violation("listeners-closed-after-server_close", f"sockets created by the server are still open after server_close() and after every serve_forever has returned: {leaked}; history: {self.rec.model.history[-30:]}", key=f"C18/{self.harness}/socket-leak-at-end"))
        for info in self.nsts:  # the helper's own join(): one more shutdown, then the thread must be over
            self.join_nst(None, None, info)
        for t in callers + self.bg:
            threading.Thread.join(t, CALL_BOUND)
            if t.is_alive():
                self.no_progress("thread-join")


def _h_threads(world: World, kind: str) -> None:
    import threading

    run = ThreadRun(world, kind)
    sched = Scheduler(world, switch_den=run.switch_den, preempt_files=("servers/_base.py", "servers/threads_helper.py", "_asyncio/threads.py") if run.max_preemptions else (), max_preemptions=run.max_preemptions)
    sched.preempt_den = run.preempt_den
    world.sched = sched  # type: ignore[attr-defined]
    run.rec.sched = sched
    saved_hook = threading.excepthook
    threading.excepthook = lambda args: None  # type: ignore[assignment]
    try:
        with sim_sockets(run.net), sync_engine(world), sched:
            run.main()
    except Deadlock as exc:
        if isinstance(world.fatal, Violation):
            raise world.fatal from None
        pend = ", ".join(f"{a}:{c}" for a, c in sorted(run.current.items()))
        raise Violation("no-call-hangs", f"deadlock: {exc}; calls in progress: [{pend}]; model states {run.rec.model.possible_states()}; history: {run.rec.model.history[-30:]}", key=f"C18/{run.harness}/hang/pending={run.pending_kinds()}") from None
    except BaseException:
        if isinstance(world.fatal, Violation):
            raise world.fatal from None
        raise
    finally:
        threading.excepthook = saved_hook
        world.sched = None  # type: ignore[attr-defined]
        for s in world.sockets:
            if not s.sim_closed:
                s.close()
    world.probe(f"model-peak-configs>={min(run.rec.model.peak, 64) // 8 * 8}")


HARNESSES = [
    Harness("aio-tcp", lambda w: _h(w, "tcp"), weight=3),
    Harness("aio-udp", lambda w: _h(w, "udp"), weight=3),
    Harness("thr-tcp", lambda w: _h_threads(w, "tcp"), weight=1, wall_limit=60.0),
    Harness("thr-udp", lambda w: _h_threads(w, "udp"), weight=1, wall_limit=60.0),
]
