"""C06 — malformed network input only ever surfaces as a parse error (DESIGN §4 C06).

Input classes (choice `input_kind`; value 0 = valid traffic, and every corruption is an independent coin flip whose
value 0 means "no corruption", so the all-zero choice list is a fault-free valid stream):

  traffic  valid traffic of a serializer-matrix entry, corrupted in flight: bit flips, truncation / removed spans
           (removed separators), duplicated spans (duplicated separators), splices with another valid stream
           (same or foreign format) or with garbage (invalid UTF-8, '=' runs, NULs);
  crafted  targeted corruptions per family: invalid UTF-8 inside a text frame, broken base64 padding, non-alphabet
           characters, wrong checksum characters, corrupted compressed blocks / trailers / headers, hostile pickle opcode
           sequences, well-formed JSON of the wrong shape for a converter;
  extreme  structurally extreme input up to (and slightly beyond) the configured limit: nesting depth, digit strings,
           backslash runs, very long tokens, whitespace runs, thousands of tiny documents, separator runs;
  random   random bytes, uniform or biased towards the bytes that mean something to the format.

Delivered in three modes: one-shot (`DatagramProtocol.build_packet_from_datagram`), copy consumer, fill consumer, the two
stream modes under C01's chunkings.

Oracle (nothing more than the property statement):
  escape    every outcome is a packet or a Datagram/StreamProtocolParseError; anything else is a violation, keyed by the
            type of the exception that escaped the serializer (the consumer's RuntimeError("... crashed") wrapper is unwrapped);
  progress  every outcome (error or packet) strictly increases the number of consumed bytes (fed - still held), hence the
            loop `while bytes remain: next(None)` terminates;
  no-hang   the per-run wall watchdog of the runner (Harness.wall_limit, >= 1000x the typical cost of a run) fired inside
            the code under test;
  remainder (harnesses <family>-remainder-copy/-fill, `run_remainder`) "... a parse error carrying the unread remainder": streams
            whose frame boundaries the harness knows by construction (valid frames, complete frames longer than the limit,
            malformed-but-delimited frames), for every entry with a limit that is file-based or separator-framed; while the consumer
            is in sync and the refused frame was completely received, the error consumes no byte behind that frame, the bytes kept
            are exactly the unread ones, and the valid frames behind it are delivered as sent.  See the comment above run_remainder
            for what is deliberately not claimed (verdicts on partial frames, garbage without frame structure).

Finding D4 (DESIGN §5; fixed in /repo by d5d0f61): JSONSerializer let RecursionError (nesting >= ~1500) and ValueError
(int literal > 4300 digits) escape.  Both input classes — bracket nesting of 3000-7000 levels and digit runs of 4301-13301
digits — are generated in every run class (no avoid_known restriction any more), for every entry that receives JSON text
directly; the keys stay `C06/<family>/<mode>/escape/RecursionError` and `.../escape/ValueError-int_max_str_digits`.
Between the two regimes (nesting 400..3000) nothing is generated: the C recursion threshold (1498 here) depends on the
stack depth at the call, and a run must be a pure function of its choices.
"""
from __future__ import annotations

import sys
import zlib as _zlib
from typing import Any

from easynetwork.exceptions import DatagramProtocolParseError

from vsim.chunk import CopyDriver, FillDriver, cuts_to_chunks
from vsim.runner import Harness, RunTimeout
from vsim.world import HarnessError, Violation, World

from . import matrix as M
from .c01 import bounded_cuts, tight_limit

PROPERTY = "C06"
LEVEL = "exploration"
RULE = (
    "per run: one serializer-matrix entry (122 configurations, 13 families), debug option on/off for every layer, a configured limit from {256, 64, 1024, 4096, 16384, 65536} where the "
    "serializer has one, one input of class {valid traffic + in-flight corruption (bitflip, truncate/remove span, dup_bytes, splice with another "
    "stream or garbage), crafted per-family corruption (invalid UTF-8, base64 padding/alphabet/checksum, compressed block/trailer/header, hostile "
    "pickle opcodes, wrong-shape DTO), structurally extreme input up to the limit (nesting, digit strings, backslash runs, long tokens, whitespace "
    "and separator runs, thousands of tiny documents), random bytes}; delivered one-shot, or to the copy / fill consumer under C01's chunkings "
    "(<= 256 chunks above 1 KiB, <= 64 above 8 KiB); oracle: outcome type totality, strict progress per outcome, wall watchdog. "
    "Remainder harnesses (<family>-remainder-copy/-fill; every entry with a limit that is file-based (FileBasedPacketSerializer subclasses: pickle-backed, "
    "length-prefixed) or separator-framed (line, JSON lines, base64, AutoSeparatedPacketSerializer subclasses, stapled, converter)): a stream of 2-6 complete "
    "frames with boundaries known by construction, each valid (within the limit with C01's safety margin), oversized (complete, limit+1 .. 2.5x limit bytes; file-based: a real "
    "packet produced by the serializer) or malformed-but-delimited (separator families), the last one valid; limits 32..4096; same chunkings, "
    "size hints and fill modes; oracle while the consumer is in sync (every outcome consumed exactly one frame) and the judged frame was completely "
    "handed over: an error consumes no byte behind the refused frame (the frames received in the same read(s) are still in the remainder), the bytes kept after "
    "the error are exactly data[consumed:fed], every valid frame behind a refused one is delivered as the packet sent, none is left unanswered at the end; "
    "verdicts on partial frames leave the regime (probes remainder-verdict-on-partial-frame / -resync-inside-frame / -packet-off-boundary; "
    "remainder-complete-frame-rejected and remainder-valid-frame-after-rejection count the exercised cases). "
    "Non-trivial run = at least one corruption/fragmentation fired and >= 1 outcome (packet or parse error) was produced."
)
COMPONENTS_REAL = [
    "easynetwork.serializers.* (line, json, struct, pickle, wrapper.base64, wrapper.compressor, composite, base_stream, tools)",
    "easynetwork.protocol (DatagramProtocol, StreamProtocol, BufferedStreamProtocol)",
    "easynetwork.converter",
    "easynetwork.lowlevel._stream (StreamDataConsumer, BufferedStreamDataConsumer)",
    "easynetwork.exceptions",
]
COMPONENTS_STUB = ["the corrupting link: byte-level mutations of the produced stream + the list of cuts (no socket in this tier)"]
ASSUMPTIONS = [
    "pickle-based entries use a restricted pure-Python unpickler (find_class raises): the C unpickler sizes its memo array from a 4-byte index, "
    "which is an allocation hazard of CPython's pickle, not of EasyNetwork",
    "decompression bombs are not generated: the compressor wrappers have no configured limit, and the property quantifies 'up to the configured limit'",
    "nesting depths between 400 and 3000 are not generated (RecursionError threshold zone, would make outcomes depend on the harness stack depth)",
    "the wall watchdog is the runner's per-run alarm (20 s for runs that normally take ~1 ms)",
    "remainder clause: only for streams built as a concatenation of complete frames with known boundaries, and only for outcomes reported while the consumer is in sync "
    "and the judged frame is completely received; a limit error on a partial frame (legitimate) ends the claim for that run; whether an oversized or malformed frame "
    "IS refused is not demanded here (C07 / C02); file-based runs end when the in-sync regime is left (the tail of a refused frame is one 1-byte parse error per filler byte)",
]
BUDGET = {"quick": 40, "thorough": 480}

LIMITS = [256, 64, 1024, 4096, 16384, 65536]
HINTS = [1024, 1, 2, 3, 5, 8, 16, 64, 16384]
HINTS_BIG = [16384, 1024, 65536]
KNOWN_DEPTH = 500  # nesting deeper than this is D4's input class (RecursionError from ~1500 on)
KNOWN_DIGITS = 4000  # longer digit runs are D4's input class (ValueError above 4300)


# ------------------------------------------------------------------------------------------------ drivers that keep the escaped exception
class _EscapeInfo:
    last_escape: BaseException | None = None

    def _emit(self, o: tuple) -> None:  # called from inside the driver's `except` block
        if o[0] == "crash":
            self.last_escape = sys.exc_info()[1]
        super()._emit(o)  # type: ignore[misc]


class _Copy(_EscapeInfo, CopyDriver):
    pass


class _Fill(_EscapeInfo, FillDriver):
    pass


def _escape_tag(exc: BaseException | None, fallback: str) -> tuple[str, str]:
    """(structural tag for the key, human description).  The wrapper RuntimeError('... crashed') is unwrapped."""
    if exc is None:
        return fallback, fallback
    inner = exc
    if type(exc) is RuntimeError and exc.__cause__ is not None and "crashed" in str(exc):
        inner = exc.__cause__
    name = type(inner).__name__
    text = str(inner)[:300]
    tag = name
    if isinstance(inner, ValueError) and "integer string conversion" in text:
        tag = "ValueError-int_max_str_digits"
    desc = f"{name}: {text}"
    if inner is not exc:
        desc += f"  (wrapped in {type(exc).__name__}({str(exc)!r}))"
    return tag, desc


# ------------------------------------------------------------------------------------------------ byte-level corruption
_GARBAGE = [b"\xff", b"\xc3", b"\xed\xa0\x80", b"\xf8\x88\x80\x80\x80", b"\xc0\xaf", b"\x00", b"=", b"==", b"\xfe\xff", b"\r", b"\n", b"\\", b'"', b"\x80"]


def _pos(world: World, n: int, bounds: list[int], seplen: int) -> int:
    """A position in [0, n]: uniform, or in the neighbourhood of a frame boundary / separator."""
    if bounds and world.choose("pos_kind", 2):
        b = bounds[world.choose("pos_bound", len(bounds))]
        p = b - world.choose("pos_back", seplen + 3)
        return min(max(p, 0), n)
    return world.choose("pos", n + 1)


def _other_stream(world: World, entry: M.Entry, mode: str) -> bytes:
    """Another valid byte stream: same entry, or (1 in 3) any other stream-capable entry of the matrix."""
    e = entry
    if world.choose("other_foreign", 3) == 2:
        cands = [x for x in M.MATRIX if x.kind != "oneshot" and x.large != "only" and x.roundtrip]
        e = cands[world.choose("other_entry", len(cands))]
    pk = e.gen_packets(world, 1 + world.choose("other_n", 2), "stream" if e.kind != "oneshot" else "oneshot")
    if e.kind == "oneshot":
        return e.datagram_protocol().make_datagram(pk[0])
    return M.produce(e.stream_protocol(), pk)[0]


def corrupt(world: World, data: bytes, bounds: list[int], entry: M.Entry, mode: str) -> bytes:
    seplen = len(entry.sep) if entry.sep else 0
    if data and world.chance("m_bitflip", 1, 3):
        buf = bytearray(data)
        for _ in range(1 + world.choose("nflips", 3)):
            p = min(_pos(world, len(buf) - 1, bounds, seplen), len(buf) - 1)
            buf[p] ^= 1 << world.choose("bit", 8)
        data = bytes(buf)
        world.fault("bitflip")
    if data and world.chance("m_truncate", 1, 4):
        how = world.choose("trunc_how", 3)
        p = _pos(world, len(data), bounds, seplen)
        if how == 0:  # the tail is lost
            data = data[:p]
        elif how == 1:  # a span is lost (a separator, a header, a trailer ...)
            k = 1 + world.choose("span", max(seplen, 1) + 7)
            data = data[:p] + data[p + k :]
        else:  # the head is lost
            data = data[p:]
        world.fault("truncate")
    if data and world.chance("m_dup", 1, 4):
        p = _pos(world, len(data), bounds, seplen)
        k = 1 + world.choose("span", max(seplen, 1) + 15)
        r = 1 + world.choose("repeat", 4)
        data = data[: p + k] + data[p : p + k] * r + data[p + k :]
        world.fault("dup_bytes")
    if world.chance("m_splice", 1, 5):
        how = world.choose("splice_how", 3)
        p = _pos(world, len(data), bounds, seplen)
        if how == 2:
            g = _GARBAGE[world.choose("garbage", len(_GARBAGE))] * (1 + world.choose("garbage_rep", 4))
            data = data[:p] + g + data[p:]
        else:
            other = _other_stream(world, entry, mode)
            j = world.choose("other_pos", len(other) + 1)
            if how == 0:  # the connection continues with the tail of another stream
                data = data[:p] + other[j:]
            else:  # a piece of another stream is inserted
                k = 1 + world.choose("other_len", 32)
                data = data[:p] + other[j : j + k] + data[p:]
        world.fault("splice")
    return data


# ------------------------------------------------------------------------------------------------ crafted, per family
_PICKLE_HOSTILE = [
    b"cos\nsystem\n(S'true'\ntR.",  # GLOBAL + REDUCE
    b"\x80\x04\x95\xff\xff\xff\xff\xff\xff\xff\x7f.",  # FRAME of 2**63-1 bytes
    b"\x80\x04\x95\x10\x00\x00\x00\x00\x00\x00\x00N.",  # FRAME longer than its content
    b"\x80\x05\x8e\xff\xff\xff\xff\xff\xff\xff\x00abc.",  # BINBYTES8 huge
    b"\x80\x02\x8b\xff\xff\xff\x7fab.",  # LONG4 huge
    b"\x80\x05\x96\x00\x00\x00\x00\x10\x00\x00\x00.",  # BYTEARRAY8 of 64 GiB (refused by the restricted unpickler, see matrix.py)
    b"\x80\xff.",  # unsupported protocol
    b"\x80\x04r\xff\xff\xff\x0f.",  # LONG_BINPUT with a huge memo index on an empty stack
    b"\x80\x04Nr\xff\xff\xff\x0f.",  # ... on a non-empty stack
    b"\x80\x04j\xff\xff\xff\x7f.",  # LONG_BINGET unknown index
    b"(" * 300 + b"t" * 300 + b".",  # nested marks / tuples
    b"]" * 400 + b"a" * 399 + b".",  # deeply nested list
    b"\x80\x04\x8c\x02os\x8c\x06system\x93.",  # STACK_GLOBAL
    b"\x80\x04N\x81.",  # NEWOBJ on non-class
    b"\x80\x04NNb.",  # BUILD on None
    b"\x80\x04\x82\x01.",  # EXT1
    b"P0\n.",  # PERSID
    b"I" + b"9" * 5000 + b"\n.",  # text INT beyond int-max-str-digits
    b"\x80\x04X\xff\xff\xff\xffabc.",  # BINUNICODE with a huge length
    b"\x80\x04X\x02\x00\x00\x00\xff\xfe.",  # BINUNICODE with invalid UTF-8
    b".",  # STOP on an empty stack
    b"\x80\x04N",  # no STOP
    b"0.",  # POP on an empty stack
    b"\x80\x04(e.",  # APPENDS without a list
]

_BAD_DTO = [
    b"[]",
    b"{}",
    b"null",
    b'"x"',
    b"17",
    b'{"name":1,"age":2,"tags":[]}',
    b'{"name":"a","age":"x","tags":[]}',
    b'{"name":"a","age":1,"tags":[1]}',
    b'{"name":"a","age":1,"tags":{}}',
    b'{"name":"a","age":1}',
    b'{"name":"a","age":1,"tags":[],"extra":0}',
    b'{"name":"a","age":true,"tags":[]}',
    b'{"name":"a","age":1.0,"tags":[]}',
]


def _frame(entry: M.Entry, payload: bytes, mode: str) -> bytes:
    """Put a raw inner payload on the wire the way this entry's outer layers would (best effort, for crafted input)."""
    name = entry.name
    if name.startswith("converter/") and "base64" in name:
        import base64
        import hashlib

        payload = base64.urlsafe_b64encode(payload + hashlib.sha256(payload).digest())
    elif name.startswith("converter/") and "zlib" in name:
        payload = _zlib.compress(payload)
    if mode != "oneshot" and entry.sep:
        payload += entry.sep
    return payload


def crafted(world: World, entry: M.Entry, mode: str, valid: bytes, bounds: list[int]) -> bytes:
    fam = entry.family
    hints = entry.hints
    rng = world.sub_rng("crafted")
    n = len(valid)
    seplen = len(entry.sep) if entry.sep else 0
    # position of the end of the first frame's payload
    end = (bounds[0] if bounds else n) - (seplen if mode != "oneshot" else 0)
    end = max(end, 0)
    if fam in ("pickle", "filebased") or (fam == "stapled" and "pickle" in entry.name):
        world.fault("splice")
        h = _PICKLE_HOSTILE[world.choose("hostile", len(_PICKLE_HOSTILE))]
        return h + (valid if world.choose("then_valid", 2) else b"")
    if fam == "converter":
        world.fault("splice")
        doc = _BAD_DTO[world.choose("bad_dto", len(_BAD_DTO))]
        return _frame(entry, doc, mode) + (valid if mode != "oneshot" and world.choose("then_valid", 2) else b"")
    if fam in ("zlib", "bz2") or "blocks" in hints:
        how = world.choose("z_how", 6)
        buf = bytearray(valid)
        if not buf:
            return valid
        if how == 0:  # a byte inside the first compressed block
            p = rng.randrange(min(2, end), max(end, 3)) % len(buf)
            buf[p] ^= 0xFF
            world.fault("bitflip")
        elif how == 1:  # checksum / end-of-stream trailer
            for p in range(max(end - 4, 0), end):
                buf[p] ^= 0x55
            world.fault("bitflip")
        elif how == 2:  # header
            buf[0] ^= 1 << world.choose("bit", 8)
            world.fault("bitflip")
        elif how == 3:  # trailer lost, next stream follows directly
            del buf[max(end - 4, 0) : end]
            world.fault("truncate")
        elif how == 4:  # garbage between two streams
            buf[end:end] = rng.randbytes(1 + world.choose("glen", 8))
            world.fault("splice")
        else:  # a valid compressed stream whose content the inner serializer rejects (no bomb: 200 kB of 'a')
            junk = b"a" * (1 + 2000 * world.choose("junk", 101))
            if fam == "bz2" or "bz2" in entry.name:
                import bz2

                buf[0:0] = bz2.compress(junk, 1)
            else:
                buf[0:0] = _zlib.compress(junk, 1)
            world.fault("splice")
        return bytes(buf)
    if fam == "base64" or "b64" in hints:
        how = world.choose("b64_how", 7)
        buf = bytearray(valid)
        if end <= 0:
            return valid
        if how == 0:  # characters lost before the separator: padding no longer matches
            k = 1 + world.choose("lost", 3)
            del buf[max(end - k, 0) : end]
            world.fault("truncate")
        elif how == 1:  # extra padding
            buf[end:end] = b"=" * (1 + world.choose("pad", 3))
            world.fault("splice")
        elif how == 2:  # padding in the middle
            p = rng.randrange(end)
            buf[p : p + 1] = b"="
            world.fault("bitflip")
        elif how == 3:  # non-alphabet / other-alphabet characters
            p = rng.randrange(end)
            buf[p : p + 1] = rng.choice([b"*", b"+", b"/", b"-", b"_", b" ", b"\xff", b"\x00"])
            world.fault("bitflip")
        elif how == 4:  # wrong checksum characters (last 43 characters carry the 32-byte digest)
            p = max(end - 1 - rng.randrange(min(43, end)), 0)
            buf[p] = 0x41 if buf[p] != 0x41 else 0x42
            world.fault("bitflip")
        elif how == 5:  # payload character changed, checksum intact
            p = rng.randrange(max(end - 44, 1))
            buf[p] = 0x41 if buf[p] != 0x41 else 0x42
            world.fault("bitflip")
        else:  # empty frame / only padding
            buf[0:end] = b"=" * world.choose("pad", 5)
            world.fault("truncate")
        return bytes(buf)
    # text-ish and binary frames: invalid UTF-8 / forbidden bytes inside the first frame
    buf = bytearray(valid)
    g = rng.choice([b"\xff", b"\xc3", b"\xed\xa0\x80", b"\xf8\x88\x80\x80\x80", b"\xc0\xaf", b"\x80", b"\xe2\x82", b"\x00\xd8", b"\x00\xdc\x00\xdc"])
    p = rng.randrange(max(end, 1))
    if world.choose("overwrite", 2) and fam in ("struct", "namedtuple", "fixed"):
        buf[p : p + len(g)] = g[: max(len(buf) - p, 0)] if p + len(g) > len(buf) else g  # keep the framing of fixed-size packets
    else:
        buf[p:p] = g
    world.fault("splice")
    return bytes(buf)


# ------------------------------------------------------------------------------------------------ structurally extreme input
def _sizes(world: World, limit: int, tag: str) -> int:
    """A size relative to the configured limit: well inside, at the edge, just beyond, far beyond."""
    k = world.choose(tag, 8)
    base = [limit // 4, limit // 2, limit - 3, limit - 1, limit, limit + 1, limit + 5, 2 * limit + 3][k]
    return max(base, 1)


def extreme_json(world: World, limit: int, lines: bool, allow_known: bool) -> tuple[bytes, int, str]:
    """-> (document bytes, limit to configure, description).  `allow_known` permits D4's two input classes."""
    shape = world.choose("x_shape", 12)
    known = False
    if allow_known and shape in (0, 1, 2, 3, 4) and world.choose("known_class", 2):
        known = True
        limit = 65536 if world.choose("known_limit", 2) == 0 else 16384
    size = _sizes(world, limit, "x_size")
    if shape in (0, 1, 2, 3):
        depth = size // (2 if shape in (0, 2) else 6 if shape == 1 else 8)
        if known:
            depth = 3000 + world.choose("depth", 3) * 2000 if limit == 65536 else 3000
            if shape == 1:
                depth = min(depth, (limit - 8) // 6)
            if shape == 3:
                depth = min(depth, (limit - 8) // 8)
        else:
            depth = min(depth, (KNOWN_DEPTH - 100) // (2 if shape == 3 else 1))  # shape 3 nests two levels per unit
        depth = max(depth, 1)
        if shape == 0:
            doc = b"[" * depth + b"]" * depth
        elif shape == 1:
            doc = b'{"a":' * depth + b"1" + b"}" * depth
        elif shape == 2:
            doc = b"[" * depth + (b"1" if world.choose("x_tail", 2) else b"")
        else:
            doc = b'[{"a":' * depth + b"0" + b"}]" * depth
        desc = f"nesting shape={shape} depth={depth}"
    elif shape == 4:
        k = size
        variant = world.choose("x_variant", 8)
        if known:
            k = 4301 + world.choose("digits", 4) * 3000
            variant = variant % 4  # the integer variants
        elif variant < 4:
            k = min(k, KNOWN_DIGITS - 100)
        digits = b"1" * k
        doc = [digits, b"-" + digits, b"[" + digits + b"]", b'{"a":' + digits + b"}", b"0." + digits, b"1e" + digits, digits + b".5", b"[1." + digits + b"e-" + digits[: k // 2] + b"]"][variant]
        desc = f"digits variant={variant} k={k}"
    elif shape == 5:
        k = size
        variant = world.choose("x_variant", 5)
        bs = b"\\" * k
        doc = [b'"' + bs + b'"', b'"' + bs, b'["' + bs + b'\\"]', b'"' + bs + b'""', b'{"' + bs + b'":"' + bs + b'"}'][variant]
        desc = f"backslashes variant={variant} k={k}"
    elif shape == 6:
        k = size
        variant = world.choose("x_variant", 6)
        doc = [b'"' + b"a" * k + b'"', b"tru" + b"e" * k, b"n" * k, b'["' + b"\xc3\xa9" * (k // 2) + b'"]', b'{"' + b"k" * k + b'":null}', b'"' + b"\\u00e9" * (k // 6) + b'"'][variant]
        desc = f"long token variant={variant} k={k}"
    elif shape == 7:
        k = size
        variant = world.choose("x_variant", 5)
        doc = [b" " * k + b"1", b"\n" * k, b"[" + b" " * k + b"]", b"\r\n\t " * (k // 4) + b"{}", b"[1," + b" " * k][variant]
        desc = f"whitespace variant={variant} k={k}"
    elif shape == 8:
        k = min(size, 800)
        variant = world.choose("x_variant", 6)
        doc = [b"[]" * k, b"1\n" * k, b'""' * k, b"{}\n" * k, b"]" * k, b"}{" * k][variant]
        desc = f"many tiny documents variant={variant} k={k}"
    elif shape == 9:
        rng = world.sub_rng("soup")
        k = min(size, 4000)
        doc = bytes(rng.choices(b'"\\[]{}:,0 \n', k=k))
        desc = f"bracket/quote soup k={k}"
    elif shape == 10:
        k = size
        doc = b"[" + b",".join([b"1"] * max(k // 2, 1)) + b"]"
        desc = f"long flat array k={k}"
    else:
        k = size
        doc = b'{"a":"' + b"x" * k
        desc = f"unterminated string k={k}"
    if lines or world.choose("x_newline", 4):
        doc += b"\n"
    return doc, limit, desc + (" [known input class D4]" if known else "")


def extreme_framed(world: World, entry: M.Entry, limit: int) -> tuple[bytes, str]:
    """Separator-framed and other families: tokens around the limit, separator runs, proper-prefix runs."""
    sep = entry.sep or b""
    size = _sizes(world, limit, "x_size")
    variant = world.choose("x_variant", 6)
    alpha = b"QUJD" if "b64" in entry.hints else b"abcd"
    fam = entry.family
    if fam in ("filebased", "pickle"):
        body = [
            b"\x80\x04\x95" + (size).to_bytes(8, "little") + b"N" * min(size, 8000),
            b"\x80\x04\x8e" + (size).to_bytes(8, "little") + b"x" * min(size // 2, 8000),
            b"\x80\x04" + b"]" * min(size, 8000),
            b"\x80\x04" + b"(" * min(size, 8000) + b".",
            b"\x80\x04B" + (size).to_bytes(4, "little") + b"x" * min(size, 8000) + b".",
            b"\x80\x04\x8a\xff" + b"\x01" * min(size, 255) + b".",
        ][variant]
        return body, f"pickle extreme variant={variant} size={size}"
    if not sep:
        body = [b"\x00" * size, b"\xff" * size, b"\x78\x9c" + b"\x00" * size, b"BZh9" + b"\xff" * size, bytes(range(256)) * (size // 256 + 1), b"\n" * size][variant]
        return body[: 2 * limit + 64], f"binary run variant={variant} size={size}"
    token = (alpha * (size // len(alpha) + 1))[:size]
    body = [
        token + sep,
        token,  # never terminated
        sep * min(size, 600),
        (sep[:-1] or sep) * min(size, 1500) + sep,
        token[: size // 2] + sep[:-1] + token[size // 2 :] + sep,
        sep + token + sep + sep,
    ][variant]
    return body, f"framed extreme variant={variant} size={size}"


# ------------------------------------------------------------------------------------------------ random bytes
def random_bytes(world: World, entry: M.Entry, limit: int, mode: str) -> bytes:
    rng = world.sub_rng("random")
    k = world.choose("r_len", 5)
    if k == 0:
        n = rng.randint(0 if mode == "oneshot" else 1, 16)
    elif k == 1:
        n = rng.randint(17, 200)
    elif k == 2:
        n = rng.randint(201, 1500)
    elif k == 3:
        n = max(min(limit, 20000) + rng.randint(-3, 3), 1)
    else:
        n = min(2 * limit + rng.randint(0, 40), 6000)
    if world.choose("r_alpha", 2) == 0:
        return rng.randbytes(n)
    tokens: list[bytes] = [b"\x00", b"\xff", b"a", b"1", b" "]
    if entry.sep:
        tokens += [entry.sep, entry.sep[:1], entry.sep[-1:]]
    if "json" in entry.hints or entry.family in ("json", "converter"):
        tokens += [b"{", b"}", b"[", b"]", b'"', b"\\", b",", b":", b"\n", b"true", b"null", b"-", b"e", b".", b"\xc3\xa9", b'\\u00', b'"a":']
    if "b64" in entry.hints:
        tokens += [b"QUJD", b"=", b"-", b"_", b"+", b"/", b"eyJ9"]
    if entry.family in ("pickle", "filebased") or "pickle" in entry.name:
        tokens += [b"\x80\x04", b".", b"N", b"]", b"(", b"t", b"\x95", b"K\x01", b"\x8c\x01a", b"\x94", b"e", b"a", b"}", b"s", b"c", b"\n", b"r", b"h\x00", b"\x8a"]
    if entry.family in ("zlib", "bz2") or "blocks" in entry.hints:
        tokens += [b"x\x9c", b"x\x01", b"BZh9", b"1AY&SY", b"\x03\x00\x00\x00\x00\x01"]
    out = bytearray()
    while len(out) < n:
        out += rng.choice(tokens) if rng.random() < 0.8 else rng.randbytes(rng.randint(1, 4))
    return bytes(out[:n]) if n else b""


# ------------------------------------------------------------------------------------------------ input builder
def build_input(world: World, entry: M.Entry, limit: int, mode: str) -> tuple[bytes, list[int], int, str]:
    """-> (bytes on the wire, frame boundaries of the uncorrupted stream, limit to configure, description)."""
    kind = world.pick("input_kind", ["traffic", "traffic", "traffic", "crafted", "extreme", "random"])
    if kind == "random":
        world.fault("splice")  # foreign bytes on the wire
        return random_bytes(world, entry, limit, mode), [], limit, "random"
    if kind == "extreme":
        world.fault("splice")
        is_json = entry.family == "json"
        if is_json or (entry.family in ("stapled", "converter") and "json" in entry.hints and "b64" not in entry.hints and world.choose("x_json", 2)):
            lines = entry.sep == b"\n"
            doc, limit, desc = extreme_json(world, limit, lines, allow_known=True)
            return doc, [len(doc)], limit, "extreme: " + desc
        doc, desc = extreme_framed(world, entry, limit)
        return doc, [len(doc)], limit, "extreme: " + desc
    # valid traffic
    if mode == "oneshot":
        pk = entry.gen_packets(world, 1, "oneshot")
        valid = entry.datagram_protocol(limit).make_datagram(pk[0])
        bounds = [len(valid)]
    else:
        pk = entry.gen_packets(world, 1 + world.choose("npackets", 4), "stream")
        valid, bounds = M.produce(entry.stream_protocol(limit), pk)
    if kind == "crafted":
        return crafted(world, entry, mode, valid, bounds), bounds, limit, "crafted"
    return corrupt(world, valid, bounds, entry, mode), bounds, limit, "traffic"


# ------------------------------------------------------------------------------------------------ harness body
def _short(b: bytes, n: int = 400) -> str:
    r = repr(b)
    return r if len(r) <= n else r[: n // 2] + f" ...({len(b)} bytes)... " + r[-n // 2 :]


def _shortv(v: Any, n: int = 120) -> str:
    try:
        r = repr(v)
    except Exception:  # noqa: BLE001  (deep structure)
        r = "<unprintable>"
    return r if len(r) <= n else r[: n // 2] + f" ...({len(r)} chars)... " + r[-n // 2 :]


def run_malformed(world: World, family: str, mode: str) -> None:
    needs = {"oneshot": "datagram", "copy": "stream", "fill": "buffered"}[mode]
    entries = M.select(family, needs=needs, large=False)
    entry = entries[world.choose("entry", len(entries))]
    # entries without a configurable limit still need a scale for "extreme" and "random" sizes
    limit = world.pick("limit", LIMITS) if entry.has_limit else 1024
    debug = bool(world.choose("debug", 2))  # the serializers' debug option (error_info); must not change any outcome TYPE
    data, bounds, limit, desc = build_input(world, entry, limit, mode)
    site = f"C06/{family}/{mode}"
    world.notes.update(entry=entry.name, mode=mode, limit=limit if entry.has_limit else None, debug=debug, input=desc, nbytes=len(data))

    def ctx() -> str:
        return f"entry={entry.name} mode={mode} limit={limit if entry.has_limit else None} debug={debug} input=[{desc}] data({len(data)})={_short(data)}"

    # ---------------------------------------------------------------- one-shot
    if mode == "oneshot":
        proto = entry.datagram_protocol(limit, hostile=True, debug=debug)
        world.log("datagram", len(data))
        try:
            proto.build_packet_from_datagram(data)
        except DatagramProtocolParseError as exc:
            world.log("err", type(exc.error).__name__)
        except RunTimeout:
            raise Violation("no-hang", f"build_packet_from_datagram did not return within the wall watchdog\n{ctx()}", key=f"{site}/hang") from None
        except Exception as exc:  # noqa: BLE001
            tag, text = _escape_tag(exc, type(exc).__name__)
            world.log("crash", tag)
            raise Violation("escape", f"{text} escaped DatagramProtocol.build_packet_from_datagram\n{ctx()}", key=f"{site}/escape/{tag}") from None
        else:
            world.log("pkt", "")
        world.progress(1)
        return

    # ---------------------------------------------------------------- stream modes
    n = len(data)
    max_chunks = 64 if n > 8192 else 256 if n > 1024 else None
    if family == "filebased" and n > 1024:
        max_chunks = 32  # the file-based base class re-parses everything buffered on every read
    structural = M.LazyCuts(lambda: M.structural_cuts(data, bounds, entry.sep, entry.hints))
    cuts = bounded_cuts(world, n, structural, max_chunks)
    chunks = cuts_to_chunks(data, cuts)
    proto = entry.protocol(needs, limit, hostile=True, debug=debug)
    if mode == "copy":
        drv: Any = _Copy(proto, world)
    else:
        hint = world.pick("hint", HINTS_BIG if n > 4096 else HINTS)
        fill_mode = world.choose("fill_mode", 2) if n <= 4096 else 0
        world.notes.update(size_hint=hint, fill_mode=fill_mode)
        drv = _Fill(proto, hint, world, fill_mode=fill_mode)
    world.notes.update(nchunks=len(chunks), chunks=[len(c) for c in chunks][:48])

    state = {"consumed": 0}

    def on_outcome(o: tuple, d: Any) -> None:
        if o[0] == "crash":
            return
        held = d.pending()
        consumed = d.fed - held
        if consumed <= state["consumed"]:
            what = "error" if o[0] == "err" else "packet"
            raise Violation(
                "progress",
                f"outcome #{len(d.out)} ({o[0]} {o[1] if o[0] == 'err' else ''}) consumed nothing: {consumed} bytes consumed so far, {state['consumed']} before it, "
                f"{held} still held of {d.fed} fed; a receive loop that skips errors would spin\n{ctx()} chunks={[len(c) for c in chunks][:64]}",
                key=f"{site}/progress/{what}-consumed-nothing",
            )
        state["consumed"] = consumed

    drv.on_outcome = on_outcome
    crashed = False
    for c in chunks:
        drv.feed(c)
        if drv.out and drv.out[-1][0] == "crash":
            crashed = True
            break
    if not crashed:
        drv.drain(None)  # "while bytes remain: next(None)" — terminates because every outcome consumed >= 1 byte
        crashed = bool(drv.out) and drv.out[-1][0] == "crash"
    world.log("c06", mode, entry.name, len(chunks), tuple(o[0] for o in drv.out[:50]), len(drv.out))
    world.progress(sum(1 for o in drv.out if o[0] != "crash"))
    if crashed:
        o = drv.out[-1]
        if o[1] == "RunTimeout":
            raise Violation("no-hang", f"the consumer did not return within the wall watchdog after {len(drv.out) - 1} outcomes\n{ctx()} chunks={[len(c) for c in chunks][:64]}", key=f"{site}/hang")
        tag, text = _escape_tag(drv.last_escape, o[2] or o[1])
        raise Violation(
            "escape",
            f"{text} escaped the {mode} consumer after {len(drv.out) - 1} outcomes (the receive path is dead after this)\n{ctx()} chunks={[len(c) for c in chunks][:64]}",
            key=f"{site}/escape/{tag}",
        )


# ------------------------------------------------------------------------------------------------ the error's remainder (framed streams)
# "... or reports a protocol parse error CARRYING THE UNREAD REMAINDER ... a receive loop that skips errors always makes progress":
# for garbage nothing can be said about what "follows" a refused frame, so this harness only builds streams whose frame
# boundaries are known by construction: a concatenation of complete frames, each either
#   V  a valid packet of the entry, safely within the configured limit (C01's tight_limit margin);
#   O  a complete, well-delimited frame LONGER than the limit (file-based: a real packet of limit+x bytes produced by the
#      serializer itself; separator-based: limit+1+x filler bytes and the separator);
#   M  (separator-based only) a short payload the format rejects, followed by the separator.
# While the consumer is *in sync* (every outcome so far consumed exactly one whole frame) and frame k has been completely
# handed over when an outcome is reported:
#   error-consumed-following-frames  an error consumed more than frame k: bytes of the frames behind it are not in the
#                                    remainder, i.e. complete frames received in the same read(s) are lost;
#   remainder-not-the-unread-bytes   the bytes kept after the error are not data[consumed:fed];
#   valid-frame-after-rejection-*    a V frame behind a rejected frame is delivered as the packet that was sent (rejected /
#                                    altered / not delivered although everything was fed).
# Nothing is claimed for an outcome reported while frame k is still incomplete (the limit may legitimately fire on a partial
# frame, after which the rest of that frame is garbage without frame structure): the run leaves the in-sync regime and only
# the clauses of run_malformed (escape, progress, no-hang) go on.  Nothing demands that an O or M frame IS rejected (C07/C02).
REM_LIMITS = [64, 256, 32, 1024, 4096]
REM_LIMITS_FILEBASED = [64, 256, 32, 1024]  # every read re-parses what is buffered (<= limit bytes) with the pure-Python unpickler
REM_EXTRA = [0, 1, 7, 30]  # + multiples of the limit below
_REM_FILLER = 0x51  # 'Q': in no separator of the matrix


class _OutOfSync(Exception):
    """File-based entries: the run ends when the in-sync regime is left.  What remains is the tail of the refused frame, a run of
    filler bytes each of which is one parse error that copies the whole buffer again (quadratic, and run_malformed's business)."""


_REM_MALFORMED = [b"\xff", b'{"Q":', b"***=", b"\xff\xfe\xfd", b"\x80\x04\x95", b"Q\xc3", b"]"]


def _rem_entries(family: str, mode: str) -> list:
    return [e for e in M.select(family, needs=_NEEDS[mode], large=False, roundtrip=True) if e.has_limit and (e.family == "filebased" or e.sep)]


def run_remainder(world: World, family: str, mode: str) -> None:
    needs = _NEEDS[mode]
    entries = _rem_entries(family, mode)
    entry = entries[world.choose("entry", len(entries))]
    sep = entry.sep if entry.family != "filebased" else None
    debug = bool(world.choose("debug", 2))
    site = f"C06/{family}/{mode}/remainder"

    # ---- frame kinds; the last frame is valid so that something always follows a refused frame
    nframes = 2 + world.choose("nframes", 5)
    kinds = [("V", "V", "V", "O", "M")[world.choose("frame_kind", 5)] for _ in range(nframes - 1)] + ["V"]
    if sep is None:
        kinds = ["O" if k == "M" else k for k in kinds]
    sent = entry.gen_packets(world, kinds.count("V"), "stream")
    producer_proto = entry.stream_protocol()
    vframes = [M.produce(producer_proto, [p])[0] for p in sent]
    mframes: dict[int, bytes] = {}
    for i, k in enumerate(kinds):
        if k == "M":
            cands = [g for g in _REM_MALFORMED if not any(b in sep for b in g)]  # type: ignore[operator]
            mframes[i] = cands[world.choose("malformed", len(cands))] + sep  # type: ignore[operator]
    small = vframes + list(mframes.values())
    bounds_small: list[int] = []
    t = 0
    for f in small:
        t += len(f)
        bounds_small.append(t)
    limit = max(world.pick("limit", REM_LIMITS if sep is not None else REM_LIMITS_FILEBASED), tight_limit(entry, bounds_small))
    frames: list[bytes] = []
    expected: list[Any] = []
    vi = 0
    for i, k in enumerate(kinds):
        if k == "V":
            frames.append(vframes[vi])
            expected.append(entry.expect(sent[vi], "stream"))
            vi += 1
        elif k == "M":
            frames.append(mframes[i])
            expected.append(None)
            world.fault("splice")
        else:
            x = world.choose("over_by", len(REM_EXTRA) + 3)
            extra = REM_EXTRA[x] if x < len(REM_EXTRA) else (x - len(REM_EXTRA) + 1) * limit // 2 + 1
            if sep is None:
                frames.append(M.produce(producer_proto, [bytes([_REM_FILLER]) * (limit + extra)])[0])
            else:
                frames.append(bytes([_REM_FILLER]) * (limit + 1 + extra) + sep)
            if len(frames[-1]) <= limit:
                raise HarnessError(f"oversized frame of {len(frames[-1])} bytes is not above the limit {limit} ({entry.name})")
            expected.append(None)
            world.fault("splice")
    data = b"".join(frames)
    bounds: list[int] = []
    t = 0
    for f in frames:
        t += len(f)
        bounds.append(t)
    starts = [0] + bounds[:-1]
    n = len(data)

    max_chunks = 64 if n > 8192 else 256 if n > 1024 else None
    if family == "filebased" and n > 1024:
        max_chunks = 32
    structural = M.LazyCuts(lambda: M.structural_cuts(data, bounds, entry.sep, entry.hints))
    cuts = bounded_cuts(world, n, structural, max_chunks)
    chunks = cuts_to_chunks(data, cuts)
    proto = entry.protocol(needs, limit, hostile=True, debug=debug)
    if mode == "copy":
        drv: Any = _Copy(proto, world)
        hint = None
    else:
        hint = world.pick("hint", HINTS_BIG if n > 4096 else HINTS)
        fill_mode = world.choose("fill_mode", 2) if n <= 4096 else 0
        drv = _Fill(proto, hint, world, fill_mode=fill_mode)
    world.notes.update(entry=entry.name, mode=mode, limit=limit, debug=debug, kinds="".join(kinds), frame_sizes=[len(f) for f in frames], size_hint=hint, nchunks=len(chunks), chunks=[len(c) for c in chunks][:48])

    def ctx() -> str:
        return (
            f"entry={entry.name} mode={mode} limit={limit} debug={debug} size_hint={hint} frames={''.join(kinds)} frame sizes={[len(f) for f in frames]} "
            f"frame ends={bounds} chunk sizes={[len(c) for c in chunks][:64]} outcomes so far={[(o[0], o[1] if o[0] != 'pkt' else _shortv(o[1], 60)) for o in drv.out][:24]}\n"
            f"data({n})={_short(data)}"
        )

    state = {"consumed": 0, "k": 0, "sync": True, "rejected": False}

    def leave_sync(probe: str) -> None:
        state["sync"] = False
        world.probe(probe)
        if sep is None:
            raise _OutOfSync

    def on_outcome(o: tuple, d: Any) -> None:
        if o[0] == "crash":
            return
        held = d.held_bytes()
        fed = d.fed
        consumed = fed - len(held)
        before = state["consumed"]
        if consumed <= before:
            what = "error" if o[0] == "err" else "packet"
            raise Violation(
                "progress",
                f"outcome #{len(d.out)} ({o[0]} {o[1] if o[0] == 'err' else ''}) consumed nothing: {consumed} bytes consumed so far, {before} before it, "
                f"{len(held)} still held of {fed} fed; a receive loop that skips errors would spin\n{ctx()}",
                key=f"C06/{family}/{mode}/progress/{what}-consumed-nothing",
            )
        state["consumed"] = consumed
        if not state["sync"]:
            return
        k = state["k"]
        if k >= len(frames) or before != starts[k]:
            raise HarnessError(f"in-sync bookkeeping broken: k={k} before={before} starts={starts}")
        end = bounds[k]
        if fed < end:  # the verdict was given on an incomplete frame: whatever follows has no frame structure any more
            leave_sync("remainder-verdict-on-partial-frame")
            return
        if o[0] == "err":
            if consumed > end:
                lost = data[end:consumed]
                nlost = sum(1 for j in range(k + 1, len(frames)) if bounds[j] <= consumed)
                raise Violation(
                    "remainder",
                    f"the {o[1]} reported for frame #{k} ({kinds[k]}, bytes {starts[k]}..{end}, completely received: {fed} bytes fed) consumed {consumed - before} bytes, "
                    f"{consumed - end} more than the frame: the remainder carried by the error ({len(held)} bytes) does not contain the {consumed - end} bytes that follow the "
                    f"refused frame ({nlost} complete frame(s) of kinds {''.join(kinds[k + 1 : k + 1 + nlost])} lost: {_short(lost, 120)}); a receive loop that skips the error never sees them\n{ctx()}",
                    key=f"{site}/error-consumed-following-frames",
                )
            if held != data[consumed:fed]:
                raise Violation(
                    "remainder",
                    f"after the {o[1]} reported for frame #{k} ({kinds[k]}) the consumer keeps {_short(held, 120)}; the unread bytes are data[{consumed}:{fed}]={_short(data[consumed:fed], 120)}\n{ctx()}",
                    key=f"{site}/remainder-not-the-unread-bytes",
                )
            if consumed < end:  # only part of the refused frame was dropped: its tail is garbage now
                leave_sync("remainder-resync-inside-frame")
                return
            if kinds[k] == "V" and state["rejected"]:
                raise Violation(
                    "remainder",
                    f"valid frame #{k} (bytes {starts[k]}..{end}), which follows a refused frame and was completely received, was answered with {o[1]} instead of the packet {_shortv(expected[k], 120)}\n{ctx()}",
                    key=f"{site}/valid-frame-after-rejection-rejected",
                )
            if kinds[k] != "V":
                if not state["rejected"]:
                    world.probe("remainder-complete-frame-rejected")
                state["rejected"] = True
            state["k"] = k + 1
            return
        # a packet
        if consumed != end:
            leave_sync("remainder-packet-off-boundary")
            return
        if kinds[k] == "V" and state["rejected"]:
            world.probe("remainder-valid-frame-after-rejection")
            if not entry.eq(o[1], expected[k]):
                raise Violation(
                    "remainder",
                    f"valid frame #{k} (bytes {starts[k]}..{end}), which follows a refused frame, was delivered as {_shortv(o[1], 160)}; sent: {_shortv(expected[k], 160)}\n{ctx()}",
                    key=f"{site}/valid-frame-after-rejection-altered",
                )
        state["k"] = k + 1

    drv.on_outcome = on_outcome
    crashed = False
    try:
        for c in chunks:
            drv.feed(c)
            if drv.out and drv.out[-1][0] == "crash":
                crashed = True
                break
        if not crashed:
            drv.drain(None)
            crashed = bool(drv.out) and drv.out[-1][0] == "crash"
    except _OutOfSync:
        pass
    world.log("c06r", mode, entry.name, "".join(kinds), len(chunks), tuple(o[0] for o in drv.out[:50]), len(drv.out))
    world.progress(sum(1 for o in drv.out if o[0] != "crash"))
    if crashed:
        o = drv.out[-1]
        if o[1] == "RunTimeout":
            raise Violation("no-hang", f"the consumer did not return within the wall watchdog after {len(drv.out) - 1} outcomes\n{ctx()}", key=f"C06/{family}/{mode}/hang")
        tag, text = _escape_tag(drv.last_escape, o[2] or o[1])
        raise Violation("escape", f"{text} escaped the {mode} consumer after {len(drv.out) - 1} outcomes (the receive path is dead after this)\n{ctx()}", key=f"C06/{family}/{mode}/escape/{tag}")
    if state["sync"] and state["rejected"] and state["k"] < len(frames):
        k = state["k"]
        raise Violation(
            "remainder",
            f"every byte was handed over and the loop `while bytes remain: next(None)` has ended, but frame #{k} ({kinds[k]}, bytes {starts[k]}..{bounds[k]}) and the {len(frames) - k - 1} frame(s) behind it, "
            f"which follow a refused frame, were never answered ({state['consumed']} of {n} bytes consumed)\n{ctx()}",
            key=f"{site}/valid-frame-after-rejection-not-delivered",
        )


# ------------------------------------------------------------------------------------------------ harness table
_FAMILY_WEIGHT = {"line": 2, "json": 4, "base64": 2, "zlib": 2, "bz2": 1, "struct": 1, "namedtuple": 1, "pickle": 2, "autosep": 1, "fixed": 1, "filebased": 2, "stapled": 2, "converter": 2}
_REMAINDER_WEIGHT = {"filebased": 3, "line": 1, "autosep": 1, "json": 1, "base64": 1, "stapled": 1, "converter": 1}
_NEEDS = {"oneshot": "datagram", "copy": "stream", "fill": "buffered"}


def _make_harnesses() -> list[Harness]:
    out = []
    for family in M.FAMILIES:
        for mode in ("oneshot", "copy", "fill"):
            if not M.select(family, needs=_NEEDS[mode], large=False):
                continue
            out.append(Harness(f"{family}-{mode}", (lambda w, f=family, m=mode: run_malformed(w, f, m)), weight=_FAMILY_WEIGHT.get(family, 1), wall_limit=20.0))
    # framed streams (known frame boundaries): what the error's remainder must still contain
    for family in M.FAMILIES:
        for mode in ("copy", "fill"):
            if not _rem_entries(family, mode):
                continue
            out.append(Harness(f"{family}-remainder-{mode}", (lambda w, f=family, m=mode: run_remainder(w, f, m)), weight=_REMAINDER_WEIGHT.get(family, 1), wall_limit=20.0))
    return out


HARNESSES = _make_harnesses()
