"""C05 — datagrams: one packet per datagram, boundaries preserved, errors isolated (DESIGN §4 C05).

Four harnesses, one scenario generator:

  sync-endpoint   DatagramEndpoint over SocketDatagramTransport(SimSocket SOCK_DGRAM, retry_interval, selector_factory=…)
  sync-client     UDPNetworkClient(SimSocket)                      (both under vsim.harness.sync_engine)
  aio-endpoint    AsyncDatagramEndpoint over backend.wrap_connected_datagram_socket(SimSocket)
  aio-client      AsyncUDPNetworkClient(SimSocket, …, SimAsyncIOBackend)   (asyncio's real _SelectorDatagramTransport, run_async)

A remote SimSocket ("peer") sends a script of good and malformed datagrams through SimNet (loss / duplication / reordering by
delays decided by ``net.dgram_policy``), some are injected directly (``net.inject_dgram``); the library side interleaves
``send_packet`` and ``recv_packet`` calls.  On the asyncio endpoints two thirds of the runs also INTERRUPT receive calls: under
``backend.timeout(t)`` / ``backend.move_on_after(t)`` with t in {0, 1/64, 2/64, 5/64}, through ``client.iter_received_packets()`` (default
timeout 0, or k/64) and by ``task.cancel()`` of a pending ``recv_packet()`` task after a chosen virtual delay plus 0-2 loop iterations.
An interrupted receive (TimeoutError, scope caught the cancellation, iterator stopped, task cancelled) is not an outcome and must not
consume a datagram: the receive clause below is unchanged and therefore covers it (a datagram eaten by an interrupted call shifts every
later outcome); such a loss is reported under its own clause/key.
asyncio endpoints, a quarter of the runs with sends: 1..n ``send_packet`` calls FAIL IN THE KERNEL (the socket's send() raises EMSGSIZE /
ECONNREFUSED; asyncio hands that to ``error_received()``), the sender optionally starting after the j-th scripted datagram and the
receiver optionally waiting for the sender, i.e. "datagrams queued in the endpoint, then a failing send, then the receives".  The error
may come out of a later receive call or of the send itself, at most once per failed send; the receive clause is unchanged (a failed
send consumes no received datagram: own clause/key when it does).
The line family also has ``StringLineSerializer(keep_end=True)`` entries whose packets end with / contain / are the newline sequence
(LF, CR, CRLF): in one-shot mode with keep_end=True the newline is part of the packet value and must survive the round trip.

Oracle (exactly the property statement):
  send     every send_packet produced exactly one send()/sendto() on the socket (SimSocket.sent_log) and that payload, decoded by
           a FRESH DatagramProtocol, equals the packet;
  receive  for the datagrams D1..Dn actually appended to the socket queue (net.dgram_log), the k-th recv_packet outcome equals the
           outcome of decoding Dk ALONE with a fresh DatagramProtocol (packet or DatagramProtocolParseError), and there are exactly
           n outcomes: nothing merged, split, dropped or carried over;
  one-shot for self-delimiting formats (fixed-size / struct, pickle, and a local serializer that relies on the DEFAULT one-shot
           serialize()/deserialize() derived from the incremental interface) ``valid + extra bytes`` and ``valid - tail`` decode to
           a parse error; for PickleSerializer, datagrams made of well-formed opcodes with ill-typed operands (unhashable dict key,
           item assignment on an int, calling an int, BINBYTES8/BINUNICODE8 with an absurd length) must yield a packet or a parse
           error like any other datagram (never a crash of build_packet_from_datagram), with the pure-Python and the C unpickler.
"""
from __future__ import annotations

import asyncio
import dataclasses
import errno
import math
import os
import socket as _socket
from typing import Any, Generator

from easynetwork.exceptions import DatagramProtocolParseError
from easynetwork.serializers.abc import AbstractIncrementalPacketSerializer, AbstractPacketSerializer

from vsim.harness import CallFaults, draw_rate, swarm_selector, sync_engine
from vsim.runner import Harness
from vsim.sock import SimNet, SimSocket
from vsim.world import HarnessError, Violation, World

PROPERTY = "C05"
LEVEL = "exploration"
BUDGET = {"quick": 40, "thorough": 480}


# ================================================================================================ serializer entries
class LenPrefixed(AbstractIncrementalPacketSerializer[bytes, bytes]):
    """2-byte big-endian length + payload.  Deliberately does NOT override serialize()/deserialize(): it is the entry that
    exercises the default one-shot interface of serializers/abc.py (missing data / extra data checks)."""

    __slots__ = ()

    def incremental_serialize(self, packet: bytes) -> Generator[bytes, None, None]:
        yield len(packet).to_bytes(2, "big")
        if packet:
            half = len(packet) // 2
            yield packet[:half]
            yield packet[half:]

    def incremental_deserialize(self) -> Generator[None, bytes, tuple[bytes, bytes]]:
        data = yield
        while len(data) < 2:
            data += yield
        n = int.from_bytes(data[:2], "big")
        while len(data) < 2 + n:
            data += yield
        return bytes(data[2 : 2 + n]), bytes(data[2 + n :])


def _gen_lenprefixed(rng, size: str = "small", mode: str = "oneshot") -> bytes:
    n = rng.choice((0, 1, 2, 3, 7, 16, 40, 300))
    return bytes(rng.randrange(256) for _ in range(n))


try:  # the shared serializer matrix (props/matrix.py); switch point: everything below only uses the Entry interface
    from props import matrix as _M

    _Entry = _M.Entry
    _ENTRIES = [e for e in _M.MATRIX if e.large != "only"]  # "only large" entries exceed the 65507-byte UDP payload limit
    MATRIX_SOURCE = "props.matrix"
except Exception:  # pragma: no cover - fallback when the shared matrix is unavailable
    import pickle

    from easynetwork.protocol import DatagramProtocol
    from easynetwork.serializers.json import JSONSerializer
    from easynetwork.serializers.line import StringLineSerializer
    from easynetwork.serializers.pickle import PickleSerializer
    from easynetwork.serializers.struct import StructSerializer
    from easynetwork.serializers.wrapper.base64 import Base64EncoderSerializer
    from easynetwork.serializers.wrapper.compressor import ZlibCompressorSerializer

    MATRIX_SOURCE = "local fallback"

    class _NoGlobals(pickle._Unpickler):  # type: ignore[name-defined]
        def find_class(self, module: str, name: str) -> Any:
            raise pickle.UnpicklingError("forbidden")

    @dataclasses.dataclass
    class _Entry:  # type: ignore[no-redef]
        name: str
        family: str
        make: Any
        gen: Any
        domain: str = ""
        large: str = "none"

        def expect(self, sent: Any, mode: str) -> Any:
            return sent

        def eq(self, a: Any, b: Any) -> bool:
            return type(a) is type(b) and a == b

        def datagram_protocol(self, limit: Any = None, hostile: bool = False) -> Any:
            return DatagramProtocol(self.make(None, hostile))

    def _g_str(rng, size="small", mode="oneshot"):
        if rng.random() < 0.1:
            return ""
        return "".join(rng.choice("abcXYZ 09_é€") for _ in range(rng.randint(1, 40)))

    def _g_json(rng, size="small", mode="oneshot"):
        return {"k" + str(i): [rng.randint(-9, 9), _g_str(rng), None, True, 1.5] for i in range(rng.randint(0, 3))}

    _ENTRIES = [
        _Entry("line/LF/utf-8", "line", lambda limit, hostile=False: StringLineSerializer("LF", encoding="utf-8"), _g_str),
        _Entry("json", "json", lambda limit, hostile=False: JSONSerializer(), _g_json),
        _Entry("struct/!hI5s?d", "struct", lambda limit, hostile=False: StructSerializer("!hI5s?d"), lambda rng, size="small", mode="oneshot": (rng.randint(-9, 9), rng.randint(0, 99), bytes(rng.randrange(1, 256) for _ in range(5)), bool(rng.randrange(2)), rng.randint(-5, 5) / 4)),
        _Entry("pickle", "pickle", lambda limit, hostile=False: PickleSerializer(unpickler_cls=_NoGlobals), _g_json),
        _Entry("base64/json", "base64", lambda limit, hostile=False: Base64EncoderSerializer(JSONSerializer()), _g_json),
        _Entry("zlib/json", "zlib", lambda limit, hostile=False: ZlibCompressorSerializer(JSONSerializer()), _g_json),
    ]

_ENTRIES = list(_ENTRIES) + [
    _Entry(name="local/lenprefix-default-oneshot", family="local-default", make=lambda limit=None, hostile=False: LenPrefixed(), gen=_gen_lenprefixed, domain="bytes of length 0..300"),
]


# ---- StringLineSerializer(keep_end=True) in one-shot mode: the end-of-line sequence is part of the packet VALUE there (deserialize()
# does not strip it), so "status" and "status\n" are two distinct packets and both must survive send_packet -> datagram -> recv_packet.
# The shared matrix generates lines for the stream domain (never containing the separator); these derived entries add the packets
# that only the one-shot domain has: ending with the newline sequence (once or twice), containing it, or consisting of it only.
def _line_keep_end_oneshot(base: Any) -> Any:
    sep_text = base.sep.decode("ascii")
    other = "\n" if sep_text == "\r" else "\r"  # a lone CR / LF that is not the configured sequence

    def gen(rng, size: str = "small", mode: str = "oneshot") -> str:
        s = base.gen(rng, "small", mode)
        shape = rng.randrange(8)
        if shape <= 2:
            return s + sep_text
        if shape == 3:
            return s + sep_text * 2
        if shape == 4:
            return sep_text
        if shape == 5:
            return s + sep_text + base.gen(rng, "small", mode) + sep_text
        if shape == 6:
            return s + other + sep_text
        return s

    return dataclasses.replace(base, name=base.name + "/oneshot-trailing-newline", gen=gen, domain="any str of the encoding, most of them ending with the newline sequence (one-shot mode, keep_end=True: the newline is part of the value)")


_LINE_KEEP_END = [_line_keep_end_oneshot(e) for e in _ENTRIES if e.family == "line" and "keep_end=1" in e.name and getattr(e, "sep", None)]
_ENTRIES = list(_ENTRIES) + _LINE_KEEP_END


class RawBytes(AbstractPacketSerializer[bytes, bytes]):
    """identity: the cheapest possible serializer, used for the "jumbo" size class (payloads at the limit of UDP)"""

    __slots__ = ()

    def serialize(self, packet: bytes) -> bytes:
        return bytes(packet)

    def deserialize(self, data: bytes) -> bytes:
        return bytes(data)


# UDP payload limits: 65507 bytes over IPv4 (65535 - 8 - 20), 65527 over IPv6 (65535 - 8; the IPv6 header is not counted)
JUMBO_SIZES = (65500, 65506, 65507, 65508, 65520, 65527)


def _gen_jumbo(rng, size: str = "small", mode: str = "oneshot") -> bytes:
    return rng.randbytes(rng.choice(JUMBO_SIZES))


_JUMBO_ENTRY = _Entry(name="local/raw-bytes-jumbo", family="local-raw", make=lambda limit=None, hostile=False: RawBytes(), gen=_gen_jumbo, domain="bytes of 65500..65527 bytes (IPv6 socket)")

_FAMILIES: dict[str, list] = {}
for _e in _ENTRIES:
    _FAMILIES.setdefault(_e.family, []).append(_e)
_FAMILY_NAMES = list(_FAMILIES)
# the default-one-shot entry is the only one that reaches serializers/abc.py's deserialize(): give it a fair share
_FAMILY_PICK = _FAMILY_NAMES + ["local-default"] * 2

# formats in which a datagram is self-delimiting: ANY non-empty suffix added / removed must be a parse error
_SELF_DELIMITING = frozenset({"local-default", "struct", "namedtuple", "fixed", "pickle"})

RULE = (
    f"per run: one serializer entry ({len(_ENTRIES)} entries from {MATRIX_SOURCE} + a local serializer using the default one-shot "
    "serialize/deserialize), 0-5 send_packet calls and a script of 1-7 incoming datagrams of kinds {valid, truncated, extended, "
    "bit-flipped, empty, two-valid-concatenated, garbage; pickle family: half of the garbage datagrams are well-formed opcodes with "
    "ill-typed operands / absurd BINBYTES8 lengths, which must yield a packet or a parse error at recv_packet and through the one-shot "
    "interface with the C unpickler} sent by a remote socket through SimNet with swarm-chosen loss / "
    "duplication / per-datagram delays (reordering) or injected directly; recv calls with timeouts {0, k/64, None}, slow receiver "
    "so that bursts queue up; asyncio endpoints: in 2/3 of the runs receive calls are interrupted (backend.timeout(t) / move_on_after(t), "
    "t in {0, 1/64, 2/64, 5/64}; AsyncUDPNetworkClient.iter_received_packets() with the default timeout 0 or a k/64 budget; task.cancel() "
    "of a pending recv_packet() task after {0, 1, 2, 5}/64 s plus 0-3 loop iterations, i.e. also in the iteration right after the one in "
    "which the datagram arrived): an interrupted call is no outcome and must consume no datagram (own clause/key "
    "recv/lost-by-interrupted-receive); asyncio endpoints, a quarter of the runs with sends: send_packet calls that fail in the kernel "
    "(EMSGSIZE / ECONNREFUSED from the socket's send(), one chosen send or each with p=1/2), sender start delayed until after the j-th "
    "scripted datagram and/or receiver started after the sender so that received datagrams are queued in the endpoint when the send "
    "fails: the error may be reported by a later receive or by the send itself, at most one report per injected error "
    "(recv/socket-error-reported-twice), delivered datagrams still yield exactly one outcome each (recv/lost-after-failed-send), "
    "failed sends are exempt from the one-datagram-per-send clause; line family: + StringLineSerializer(keep_end=True) entries whose "
    "one-shot packets end with / contain / are the newline sequence (LF, CR, CRLF); in a quarter-to-half of the runs 1-3 pending socket errors (ECONNREFUSED) interleaved with the queued "
    "datagrams (asyncio: scenarios without sends; blocking: a send may report the error, a send that returns normally must have "
    "produced its datagram); 1 run in 16 uses the jumbo size class (identity serializer, 65500..65527-byte payloads, AF_INET6); EAGAIN/EINTR on sendto/recvfrom; selector hold/reorder/spurious readiness. Packet domain = the "
    "entry's one-shot domain ('' is a valid line packet in one-shot mode; on asyncio endpoints it is generated only when "
    "world.avoid_known is False: D10). Non-trivial run = >=1 fault kind fired and >=1 packet sent or received."
)
COMPONENTS_REAL = [
    "easynetwork.protocol.DatagramProtocol",
    "easynetwork.serializers.* (one-shot interface)",
    "easynetwork.lowlevel.api_sync.endpoints.datagram.DatagramEndpoint",
    "easynetwork.lowlevel.api_sync.transports.socket.SocketDatagramTransport + base_selector._retry",
    "easynetwork.clients.udp.UDPNetworkClient",
    "easynetwork.lowlevel.api_async.endpoints.datagram.AsyncDatagramEndpoint",
    "easynetwork.lowlevel.api_async.backend._asyncio.datagram.{endpoint,socket}",
    "easynetwork.clients.async_udp.AsyncUDPNetworkClient",
    "asyncio.selector_events._SelectorDatagramTransport, asyncio.Queue, BaseEventLoop._run_once (CPython 3.12)",
]
COMPONENTS_STUB = ["SimSocket(SOCK_DGRAM)", "SimNet datagram routing (loss/dup/delay)", "SimSelector", "virtual clock", "remote sender"]
ASSUMPTIONS = [
    "a datagram socket delivers whole datagrams in queue order and recv(64 KiB) never truncates (payloads <= 60 KB)",
    "a connected UDP socket only receives from its peer address (filtered by SimNet like the kernel does)",
    "the reference decoder is a fresh DatagramProtocol of the same class: the check is about isolation between datagrams, the "
    "self-delimiting clause is what pins the one-shot interface itself",
]

KINDS = ("valid", "valid", "truncated", "extended", "bitflip", "empty", "concat", "garbage")

# Well-formed pickle opcodes with ill-typed operands: the unpickler raises TypeError / OverflowError (not UnpicklingError) on them.
# Hand-written and safe for the C unpickler too (the absurd lengths exceed PY_SSIZE_T_MAX: refused before any allocation).
# Used as "garbage" datagrams of the pickle family; every one of them is a parse error for PickleSerializer.
PICKLE_ILLTYPED = (
    b"}]K\x01s.",  # {[]: 1}: unhashable key
    b"K\x01K\x02K\x03s.",  # 1[2] = 3
    b"K\x01)R.",  # 1()
    b"K\x01K\x02\x85R.",  # 1(2)
    b"}(]K\x01u.",  # SETITEMS with an unhashable key
    b"\x8f(]\x90.",  # set.add([]) (ADDITEMS)
    b"\x80\x04}]K\x01s.",
    b"\x80\x02K\x01)R.",
    b"]\x94h\x00K\x01\x85R.",  # [](1)
    b"K\x01)\x81.",  # NEWOBJ on an int
    b"\x8e" + (2**63 + 5).to_bytes(8, "little") + b"abc.",  # BINBYTES8, absurd length
    b"\x8e" + (2**64 - 1).to_bytes(8, "little") + b".",
    b"\x8d" + (2**63 + 1).to_bytes(8, "little") + b"abc.",  # BINUNICODE8, absurd length
)
_PICKLE_ILLTYPED_SET = frozenset(PICKLE_ILLTYPED)


# ================================================================================================ reference
def _decode_alone(entry: Any, data: bytes) -> tuple:
    proto = entry.datagram_protocol(None, True)
    try:
        return ("pkt", proto.build_packet_from_datagram(data))
    except DatagramProtocolParseError:
        return ("err",)
    except Exception as exc:  # not C05's business (C06); the endpoint must then report a crash for this datagram only
        return ("crash", type(exc).__name__)


def _deep_same(a: Any, b: Any) -> bool:
    """type-strict structural equality in which NaN equals NaN (bit-flipped struct floats decode to NaN on both sides)"""
    if type(a) is not type(b):
        return False
    if isinstance(a, float):
        return a == b or (a != a and b != b)
    if isinstance(a, (list, tuple)):
        return len(a) == len(b) and all(_deep_same(x, y) for x, y in zip(a, b))
    if isinstance(a, dict):
        return len(a) == len(b) and all(k in b and _deep_same(v, b[k]) for k, v in a.items())
    if dataclasses.is_dataclass(a):
        return all(_deep_same(getattr(a, f.name), getattr(b, f.name)) for f in dataclasses.fields(a))
    return bool(a == b)


def _same_outcome(entry: Any, got: tuple, ref: tuple) -> bool:
    if got[0] != ref[0]:
        return False
    if got[0] == "pkt":
        return bool(entry.eq(got[1], ref[1])) or _deep_same(got[1], ref[1])
    if got[0] == "crash":
        return got[1] == ref[1]
    return True


def _short(x: Any, n: int = 160) -> str:
    s = repr(x)
    return s if len(s) <= n else s[:n] + f"...<{len(s)} chars>"


# ================================================================================================ scenario
class _SendFaults:
    """socket fault plan: the next send()/sendto() of the socket fails with `fail_next` (armed by the sender right before one
    send_packet call); everything else is delegated to the optional inner CallFaults plan"""

    def __init__(self, world: World, inner: Any = None):
        self.world = world
        self.inner = inner
        self.fail_next: int | None = None

    def __call__(self, sock: SimSocket, op: str) -> Any:
        if op == "sendto" and self.fail_next is not None:
            code, self.fail_next = self.fail_next, None
            self.world.fault("errno_" + errno.errorcode[code].lower())
            self.world.log("sendfail", sock.label, code)
            return (ConnectionRefusedError if code == errno.ECONNREFUSED else OSError)(code, os.strerror(code))
        return self.inner(sock, op) if self.inner is not None else None


class Scenario:
    def __init__(self, world: World, engine: str, variant: str):
        self.world = world
        self.engine = engine
        self.variant = variant
        fam = world.pick("family", _FAMILY_PICK)
        self.entry = world.pick("entry", _FAMILIES[fam])
        # "jumbo" size class (rare, it costs ~65 KB per datagram): payloads around the largest UDP payloads, 65507 bytes over IPv4 and
        # 65527 over IPv6, on an AF_INET6 socket; a receive buffer smaller than that silently cuts the datagram
        self.jumbo = world.choose("jumbo", 16) == 15
        if self.jumbo:
            self.entry = _JUMBO_ENTRY
            world.probe("jumbo-datagrams")
        self.family = self.entry.family
        rng = world.sub_rng("packets")
        entry = self.entry
        avoid_empty = engine == "aio" and world.avoid_known  # API.md rule 6: the exact input class of D10

        def valid() -> tuple[Any, bytes]:
            p = entry.gen(rng, "small", "oneshot")
            return p, entry.datagram_protocol(None, True).make_datagram(p)

        # ---- outgoing packets
        self.sends: list[tuple[Any, bytes]] = []
        for _ in range(world.choose("n_out", 3 if self.jumbo else 6)):
            for _try in range(30):
                p, d = valid()
                if d or not avoid_empty:
                    break
            else:  # pragma: no cover - no entry serializes everything to b""
                raise HarnessError(f"{entry.name}: cannot generate a packet with a non-empty payload")
            if not d:
                world.probe("send-empty-payload")
            self.sends.append((p, d))

        # ---- incoming script
        self.script: list[dict] = []
        t = 0
        for i in range(1 + world.choose("n_in", 3 if self.jumbo else 7)):
            kind = KINDS[world.choose("kind", len(KINDS))]
            if self.jumbo and kind not in ("valid", "empty", "truncated"):
                kind = "valid"  # nothing is malformed for the identity serializer; keep the sizes at the limit
            p, d = valid()
            must_err = False
            if kind == "truncated":
                if len(d) == 0:
                    kind = "garbage"
                else:
                    cut = 1 + world.choose("cut", min(len(d), 8)) if world.choose("cut_mode", 2) == 0 else 1 + rng.randrange(len(d))
                    d = d[: len(d) - cut]
                    must_err = self.family in _SELF_DELIMITING
                    world.fault("dgram_truncate")
            if kind == "extended":
                extra = bytes(rng.randrange(256) for _ in range(1 + world.choose("extra", 6)))
                if world.choose("extra_kind", 3) == 1:
                    extra = d[: max(1, len(d) // 2)] or b"\x00"  # a prefix of itself
                d = d + extra
                must_err = self.family in _SELF_DELIMITING
                world.fault("dgram_corrupt")
            elif kind == "bitflip":
                if d:
                    b = bytearray(d)
                    for _ in range(1 + world.choose("nflips", 3)):
                        pos = rng.randrange(len(b))
                        b[pos] ^= 1 << rng.randrange(8)
                    d = bytes(b)
                world.fault("dgram_corrupt")
            elif kind == "empty":
                d = b""
                world.fault("dgram_corrupt")
            elif kind == "concat":
                p2, d2 = valid()
                must_err = self.family in _SELF_DELIMITING and len(d2) > 0 and len(d) > 0
                d = d + d2
                world.fault("dgram_corrupt")
            if kind == "garbage":
                d = bytes(rng.randrange(256) for _ in range(rng.choice((1, 2, 5, 17, 64))))
                if self.family == "pickle" and world.choose("pickle_illtyped", 2):
                    d = PICKLE_ILLTYPED[world.choose("pickle_illtyped_i", len(PICKLE_ILLTYPED))]
                    kind = "illtyped"
                    world.probe("pickle-illtyped-operands")
                world.fault("dgram_corrupt")
            gap = world.choose("gap", 6)  # 0 => same instant as the previous one (burst)
            t += (0, 1, 2, 5, 16, 64)[gap]
            via = "inject" if world.choose("via", 4) == 3 else "peer"
            self.script.append({"i": i, "kind": kind, "data": d, "t": t / 64.0, "via": via, "must_err": must_err, "packet": p if kind == "valid" else None})
        self.t_end = t / 64.0

        # ---- pending socket errors (ICMP "port unreachable" on the connected socket => ECONNREFUSED reported by the next socket
        # call, queued datagrams stay queued) interleaved with the datagrams.  Blocking engine: send_packet calls are kept — a send
        # that meets the pending error may raise it (the kernel transmits nothing then), but a send_packet that RETURNS NORMALLY must
        # still have produced exactly one datagram.  asyncio engine: no sends in these scenarios (asyncio's datagram transport hands a
        # send error to error_received() and the datagram is gone by design of that transport; not this library's claim).
        self.errors: list[float] = []
        nerr = (0, 0, 1, 3)[world.choose("sockerr", 4)]
        if nerr:
            if engine == "aio":
                self.sends = []
            for _ in range(nerr):
                j = world.choose("err_after", len(self.script))
                self.errors.append(self.script[j]["t"] + (0, 0, 1, 3)[world.choose("err_lag", 4)] / 64.0)
            self.errors.sort()

        # ---- asyncio engine: send_packet calls that FAIL IN THE KERNEL (EMSGSIZE, ECONNREFUSED raised by the socket's send()).
        # asyncio's datagram transport reports such an error through protocol.error_received(), the datagram is gone (by design of
        # that transport) and the error comes out of a later receive call - or of the send itself: both are accepted.  What the
        # property demands is unchanged: every datagram delivered to the socket still yields exactly one outcome (in order), and one
        # failed send accounts for at most one error report.  The interesting order is "datagrams already queued in the endpoint,
        # then the failing send, then the receives": the sender may start late (tx_start) and the receiver may wait for it.
        self.send_fail: dict[int, int] = {}  # index in self.sends -> errno
        self.failed_sends: list[int] = []  # those that actually met the injected error
        self.error_reports = 0  # OSError outcomes of receive calls + injected errors raised by send_packet itself
        self.errors_fired = 0
        self.tx_start = 0.0
        self.rx_after_tx = False
        self.send_plan: _SendFaults | None = None
        if engine == "aio" and self.sends:
            sf = world.choose("send_fail", 4)  # 0, 1: none | 2: one send | 3: every send with probability 1/2
            if sf == 2:
                self.send_fail[world.choose("send_fail_at", len(self.sends))] = 0
            elif sf == 3:
                for i in range(len(self.sends)):
                    if world.choose("send_fail_i", 2):
                        self.send_fail[i] = 0
            for i in self.send_fail:
                self.send_fail[i] = (errno.EMSGSIZE, errno.ECONNREFUSED)[world.choose("send_fail_errno", 2)]
            if self.send_fail:
                j = world.choose("tx_after", len(self.script) + 1)  # 0: at once | j: just after the j-th scripted datagram was emitted
                self.tx_start = self.script[j - 1]["t"] + (1, 2, 10)[world.choose("tx_after_lag", 3)] / 64.0 if j else 0.0
                self.rx_after_tx = bool(world.choose("rx_after_tx", 2))

        # ---- swarm fault configuration
        self.loss_den = draw_rate(world, "sw.loss", (0, 0, 8, 3))
        self.dup_den = draw_rate(world, "sw.dup", (0, 0, 8, 3))
        self.delay_mode = world.choose("sw.dgram_delay", 3)  # 0 none | 1 fixed 1/64 | 2 random 0..8 /64 (reordering)
        self.eagain_den = draw_rate(world, "sw.eagain", (0, 0, 6, 3))
        self.eintr_den = draw_rate(world, "sw.eintr", (0, 0, 0, 5))
        self.rx_slow = (0, 0, 1, 4, 24)[world.choose("rx_slow", 5)] / 64.0  # pause between two receive calls
        self.tx_gap = (0, 1, 3, 9)[world.choose("tx_gap", 4)] / 64.0

        # ---- the network
        self.net = net = SimNet(world)
        fam_ = _socket.AF_INET6 if self.jumbo else _socket.AF_INET
        host = "::1" if self.jumbo else "127.0.0.1"
        self.lib = SimSocket(net, fam_, _socket.SOCK_DGRAM, 0, "lib")
        self.peer = SimSocket(net, fam_, _socket.SOCK_DGRAM, 0, "peer")
        net.bind(self.lib, (host, 0))
        net.bind(self.peer, (host, 0))
        self.lib.connect(self.peer.getsockname())
        self.pending = 0  # deliveries scheduled and not yet executed
        self.max_delay = 0.0
        net.dgram_policy = self._policy
        if self.send_fail:
            # no spurious EAGAIN on sendto here: each send_packet is exactly one socket call, so "the next send() fails" is exact
            inner = CallFaults(world, self.eagain_den, self.eintr_den, ops=("recvfrom",)) if self.eagain_den or self.eintr_den else None
            self.lib.fault_plan = self.send_plan = _SendFaults(world, inner)
        elif self.eagain_den or self.eintr_den:
            self.lib.fault_plan = CallFaults(world, self.eagain_den, self.eintr_den, ops=("recvfrom", "sendto"))
        self.issued = 0  # scripted datagrams handed to the network so far
        for item in self.script:
            world.at(item["t"], lambda item=item: self._emit(item))
        for te in self.errors:
            world.at(te, self._socket_error)
        self.outcomes: list[tuple] = []
        self.interrupted = 0  # receive calls that ended without an outcome because they were cancelled / timed out (asyncio modes)
        world.notes.update(entry=entry.name, engine=engine, variant=variant, sends=len(self.sends), socket_errors=self.errors, send_fail=sorted(self.send_fail.items()), tx_start=self.tx_start, rx_after_tx=self.rx_after_tx, script=[(s["kind"], len(s["data"]), s["t"], s["via"]) for s in self.script], loss_den=self.loss_den, dup_den=self.dup_den, delay_mode=self.delay_mode, rx_slow=self.rx_slow)

    # -------------------------------------------------- network side
    def _policy(self, src: SimSocket, dst: tuple, data: bytes) -> list[tuple[float, bytes]]:
        w = self.world
        if src is not self.peer:
            return [(0.0, data)]
        plan: list[tuple[float, bytes]] = []
        copies = 1
        if self.loss_den and w.chance("loss", 1, self.loss_den):
            copies = 0
            w.fault("dgram_loss")
        elif self.dup_den and w.chance("dup", 1, self.dup_den):
            copies = 2
            w.fault("dgram_dup")
        for _ in range(copies):
            if self.delay_mode == 0:
                d = 0
            elif self.delay_mode == 1:
                d = 1
                w.fault("delay")
            else:
                d = w.choose("ddelay", 9)
                if d:
                    w.fault("dgram_reorder")
            plan.append((d / 64.0, data))
            self.pending += 1
            w.after(d / 64.0, self._delivered)  # runs right after the delivery event (same time, later seq)
        return plan

    def _delivered(self) -> None:
        self.pending -= 1

    def _socket_error(self) -> None:
        if not self.lib.sim_closed:
            self.lib.so_error = errno.ECONNREFUSED
            self.errors_fired += 1
            self.world.fault("errno_econnrefused")
            self.world.log("sockerr", "lib")

    def socket_error_outcome(self, exc: BaseException) -> None:
        """an exception of recv_packet that is neither a parse error nor a crash of the protocol: the injected socket error is
        an extra outcome that consumes no datagram; anything else on a healthy transport is a violation"""
        if isinstance(exc, OSError) and exc.errno == errno.ECONNREFUSED and self.errors:
            self.world.log("outcome", "rx", "oserr")
            self.world.probe("socket-error-reported")
            self.count_error_report("recv_packet", exc)
            return
        if isinstance(exc, OSError) and self.failed_sends and exc.errno in {self.send_fail[i] for i in self.failed_sends}:
            self.world.log("outcome", "rx", "oserr-of-send", exc.errno)
            self.world.probe("send-error-reported-by-receive")
            self.count_error_report("recv_packet", exc)
            return
        self.world.fail(
            Violation(
                "one-outcome-per-datagram",
                f"{self.ctx()}: recv_packet raised {type(exc).__name__}: {exc} on a healthy transport; datagrams delivered so far {_short(self.delivered(), 400)}; outcomes so far {_short(self.outcomes, 400)}; socket errors injected at {self.errors}",
                key=self.key("recv", f"unexpected-exception/{type(exc).__name__}"),
            )
        )

    def count_error_report(self, where: str, exc: BaseException) -> None:
        """asyncio engine: an injected socket error (pending ICMP error, failed send) is reported at most once"""
        self.error_reports += 1
        injected = self.errors_fired + len(self.failed_sends)
        if self.engine == "aio" and self.error_reports > injected:
            self.world.fail(
                Violation(
                    "one-error-report-per-socket-error",
                    f"{self.ctx()}: {where} raised {type(exc).__name__}: {exc}: that is error report #{self.error_reports} for {injected} injected socket errors ({self.errors_fired} pending errors, failed sends {self.failed_sends}); outcomes so far {_short(self.outcomes, 400)}",
                    key=self.key("recv", "socket-error-reported-twice"),
                )
            )

    def _emit(self, item: dict) -> None:
        self.issued += 1
        self.world.log("emit", item["via"], item["i"], item["kind"], len(item["data"]))
        if item["via"] == "inject":
            self.net.inject_dgram(self.lib, item["data"], self.peer.getsockname())
        else:
            self.peer.sendto(item["data"], self.lib.getsockname())

    def close_all(self) -> None:
        """every simulated socket is closed INSIDE the run: a later __del__ (GC timing) must not be able to append to the trace"""
        for s in self.world.sockets:
            if not s.sim_closed:
                s.close()

    def network_quiet(self) -> bool:
        return self.issued == len(self.script) and self.pending == 0

    def delivered(self) -> list[bytes]:
        me = self.lib.sockname
        return [data for (_t, _src, dst, data) in self.net.dgram_log if dst == me]

    # -------------------------------------------------- keys
    def key(self, path: str, clause: str) -> str:
        return f"C05/{self.engine}/{path}/{clause}/{self.family}"

    def ctx(self) -> str:
        return f"entry={self.entry.name} engine={self.engine} variant={self.variant}"

    # -------------------------------------------------- oracles
    def check_send(self, packet: Any, expected_payload: bytes, new: list[bytes]) -> None:
        """(send) exactly one datagram, decoding to the packet with a fresh protocol"""
        if len(new) != 1:
            if len(new) == 0 and expected_payload == b"" and self.engine == "aio":
                raise Violation(
                    "send-one-datagram-per-packet",
                    f"{self.ctx()}: send_packet({_short(packet)}) whose one-shot serialization is b'' produced NO datagram on the asyncio endpoint (the blocking endpoint sends an empty datagram)",
                    key="C05/aio/send/empty-payload-no-datagram",
                )
            raise Violation("send-one-datagram-per-packet", f"{self.ctx()}: send_packet({_short(packet)}) produced {len(new)} socket sends: {_short(new)}", key=self.key("send", "datagram-count"))
        got = _decode_alone(self.entry, new[0])
        want = ("pkt", self.entry.expect(packet, "oneshot"))
        if not _same_outcome(self.entry, got, want):
            raise Violation("send-payload-decodes-to-packet", f"{self.ctx()}: send_packet({_short(packet)}) put {_short(new[0])} on the wire, which a fresh protocol decodes to {_short(got)}", key=self.key("send", "payload-roundtrip"))

    def check_all_sends(self, done: int) -> None:
        """aio: the transport may buffer after EAGAIN, so the wire is compared once everything is flushed"""
        log = list(self.lib.sent_log)
        # a send that met an injected kernel error transmitted nothing (asyncio handed the error to error_received())
        sends = [pd for i, pd in enumerate(self.sends[:done]) if i not in self.failed_sends]
        want = [d for (_p, d) in sends]
        if log == want:
            for (p, d) in sends:
                self.check_send(p, d, [d])
            return
        if [d for d in want if d] == log:  # only the empty payloads are missing
            p = next(p for (p, d) in sends if not d)
            self.check_send(p, b"", [])
        raise Violation("send-one-datagram-per-packet", f"{self.ctx()}: {done} send_packet calls with payloads {_short(want, 400)} but the socket saw {_short(log, 400)}", key=self.key("send", "datagram-count"))

    def check_script_claims(self) -> None:
        """valid+extra / valid-tail / two valid glued together must be errors for self-delimiting formats; a valid datagram decodes to its packet"""
        for item in self.script:
            ref = _decode_alone(self.entry, item["data"])
            if item["must_err"] and ref[0] == "pkt":
                raise Violation(
                    "oneshot-rejects-extra-and-missing-data",
                    f"{self.ctx()}: a {item['kind']} datagram {_short(item['data'])} was decoded to {_short(ref[1])} by the one-shot interface instead of a parse error",
                    key=f"C05/oneshot/{item['kind']}-accepted/{self.family}",
                )
            if item["kind"] == "valid":
                want = ("pkt", self.entry.expect(item["packet"], "oneshot"))
                if not _same_outcome(self.entry, ref, want):
                    raise Violation("valid-datagram-decodes-to-packet", f"{self.ctx()}: datagram {_short(item['data'])} of packet {_short(item['packet'])} decodes to {_short(ref)}", key=f"C05/oneshot/roundtrip/{self.family}")
            if ref[0] == "crash":
                self.world.probe("reference-decode-crash:" + ref[1])
            if item["kind"] == "illtyped" and ref[0] != "crash":
                # the endpoint under test uses the pure-Python restricted unpickler: a crash there is reported where it is observed,
                # at recv_packet (see record()).  Here: the same datagram through the one-shot interface with the C unpickler
                # (other exception classes, e.g. OverflowError for the absurd lengths)
                try:
                    self.entry.datagram_protocol(None, False).build_packet_from_datagram(item["data"])
                except DatagramProtocolParseError:
                    pass
                except Exception as exc:
                    raise Violation(
                        "datagram-yields-packet-or-parse-error",
                        f"{self.ctx()}: the datagram {_short(item['data'])} (well-formed pickle opcodes, ill-typed operands) made build_packet_from_datagram() raise {type(exc).__name__}: {exc} instead of DatagramProtocolParseError (C unpickler)",
                        key=f"C05/oneshot/illtyped-crash/{self.family}",
                    )

    def _lost_indices(self, delivered: list[bytes], out: list[tuple], final: bool) -> list[int] | None:
        """indices of delivered datagrams that have to be skipped so that the outcomes are, in order, the decodings of the remaining
        ones (greedy; None when the outcomes are not explained by pure losses).  Only used to name a failure of the receive clause."""
        refs = [_decode_alone(self.entry, d) for d in delivered]
        lost: list[int] = []
        j = 0
        for o in out:
            while j < len(refs) and not _same_outcome(self.entry, o, refs[j]):
                lost.append(j)
                j += 1
            if j == len(refs):
                return None
            j += 1
        if final:
            lost.extend(range(j, len(refs)))
        return lost or None

    def _check_interrupted_lost(self, delivered: list[bytes], out: list[tuple], final: bool) -> None:
        """the receive clause failed in a run with interrupted receive calls: if the outcomes are exactly the delivered datagrams
        minus some of them, report it as what it is (same demand as the clause below, more specific key)"""
        if not self.interrupted and not self.failed_sends:
            return
        lost = self._lost_indices(delivered, out, final)
        if lost is None:
            return
        if self.failed_sends:
            raise Violation(
                "failed-send-consumes-no-received-datagram",
                f"{self.ctx()}: {len(delivered)} datagrams were delivered to the socket, the send_packet calls #{self.failed_sends} failed in the kernel ({self.error_reports} error reports so far), "
                f"and the datagrams #{lost} were never returned by any receive call although the receiver kept receiving: each of them yielded neither a packet nor a parse error\n"
                f" delivered={_short(delivered, 600)}\n outcomes={_short(out, 600)}",
                key=self.key("recv", "lost-after-failed-send"),
            )
        raise Violation(
            "interrupted-receive-consumes-no-datagram",
            f"{self.ctx()}: {len(delivered)} datagrams were delivered to the socket, {self.interrupted} receive calls were interrupted (timeout / cancellation) and returned nothing, "
            f"and the datagrams #{lost} were never returned by any receive call although the receiver kept receiving: each of them yielded neither a packet nor a parse error\n"
            f" delivered={_short(delivered, 600)}\n outcomes={_short(out, 600)}",
            key=self.key("recv", "lost-by-interrupted-receive"),
        )

    def check_receive(self, final: bool) -> None:
        delivered = self.delivered()
        out = self.outcomes
        for k in range(min(len(out), len(delivered))):
            ref = _decode_alone(self.entry, delivered[k])
            if not _same_outcome(self.entry, out[k], ref):
                self._check_interrupted_lost(delivered, out, False)
                raise Violation(
                    "kth-outcome-equals-decoding-kth-datagram-alone",
                    f"{self.ctx()}: datagrams delivered to the socket: {_short(delivered, 600)}\n outcome #{k} is {_short(out[k])} but decoding datagram #{k} alone gives {_short(ref)}\n all outcomes: {_short(out, 600)}",
                    key=self.key("recv", "decode-alone"),
                )
        if len(out) > len(delivered):
            raise Violation("one-outcome-per-datagram", f"{self.ctx()}: {len(out)} receive outcomes for {len(delivered)} delivered datagrams: {_short(out, 600)}", key=self.key("recv", "extra-outcome"))
        if final and len(out) < len(delivered):
            self._check_interrupted_lost(delivered, out, True)
            raise Violation(
                "one-outcome-per-datagram",
                f"{self.ctx()}: {len(delivered)} datagrams were delivered to the socket but only {len(out)} receive outcomes were produced although the receiver kept receiving: delivered={_short(delivered, 600)} outcomes={_short(out, 600)}",
                key=self.key("recv", "datagram-dropped"),
            )

    def record(self, fn_result: tuple) -> None:
        self.outcomes.append(fn_result)
        self.world.log("outcome", "rx", fn_result[0], len(self.outcomes))
        if fn_result[0] == "pkt":
            self.world.progress(1)
        elif fn_result[0] == "err":
            self.world.probe("parse-error-reported")
        self.check_receive(final=False)
        if fn_result[0] == "crash" and self.family == "pickle":
            data = self.delivered()[len(self.outcomes) - 1]
            if data in _PICKLE_ILLTYPED_SET:
                raise Violation(
                    "datagram-yields-packet-or-parse-error",
                    f"{self.ctx()}: the received datagram {_short(data)} (well-formed pickle opcodes, ill-typed operands) yielded neither a packet nor a DatagramProtocolParseError: recv_packet raised RuntimeError('...crashed') from {fn_result[1]}",
                    key=self.key("recv", "illtyped-crash"),
                )


def _vsleep(world: World, dt: float) -> None:
    """blocking caller pauses for dt virtual seconds (world events keep running)"""
    target = world.now + dt
    while world.now < target:
        if not world.advance(target - world.now):
            break


def _classify_exc(exc: BaseException) -> tuple | None:
    if isinstance(exc, DatagramProtocolParseError):
        return ("err",)
    if isinstance(exc, RuntimeError) and "crashed" in str(exc) and exc.__cause__ is not None:
        return ("crash", type(exc.__cause__).__name__)
    if isinstance(exc, Exception):
        return None  # socket error or something unexpected: Scenario.socket_error_outcome decides
    raise exc


# ================================================================================================ sync harnesses
def _h_sync(world: World, variant: str) -> None:
    sc = Scenario(world, "sync", variant)
    retry = (math.inf, 3 / 128.0, 0.5)[world.choose("retry_interval", 3)]
    sel_opts = {"hold_den": draw_rate(world, "sw.hold", (0, 0, 8, 3)), "spurious_den": draw_rate(world, "sw.spurious", (0, 0, 0, 12))}
    protocol = sc.entry.datagram_protocol(None, True)
    # caller program: sends and explicit receives in a world-chosen order, then drain
    ops: list[tuple] = [("send", i) for i in range(len(sc.sends))] + [("recv", None)] * world.choose("n_recv", len(sc.script) + 1)
    marks = [world.choose("order", 8) for _ in ops]
    ops = [op for _m, _i, op in sorted(zip(marks, range(len(ops)), ops), key=lambda x: (x[0], x[1]))]  # stable; sends stay in order
    with sync_engine(world, **sel_opts) as make_selector:
        if variant == "endpoint":
            from easynetwork.lowlevel.api_sync.endpoints.datagram import DatagramEndpoint
            from easynetwork.lowlevel.api_sync.transports.socket import SocketDatagramTransport

            ep: Any = DatagramEndpoint(SocketDatagramTransport(sc.lib, retry, selector_factory=make_selector), protocol)
        else:
            from easynetwork.clients.udp import UDPNetworkClient

            ep = UDPNetworkClient(sc.lib, protocol, retry_interval=retry)
        try:
            sc.check_script_claims()

            def do_recv(timeout: float | None) -> bool:
                world.log("call", "recv", -1.0 if timeout is None else timeout)
                try:
                    v = ep.recv_packet(timeout=timeout)
                except TimeoutError:
                    world.log("outcome", "rx", "timeout")
                    return False
                except BaseException as exc:
                    res = _classify_exc(exc)
                    if res is None:
                        sc.socket_error_outcome(exc)
                    else:
                        sc.record(res)
                else:
                    sc.record(("pkt", v))
                return True

            for op in ops:
                if op[0] == "send":
                    p, d = sc.sends[op[1]]
                    before = len(sc.lib.sent_log)
                    if sc.errors and sc.tx_gap:
                        _vsleep(world, sc.tx_gap)  # lets a scheduled socket error become pending right before this send
                    before = len(sc.lib.sent_log)
                    world.log("call", "send", len(d))
                    try:
                        ep.send_packet(p, timeout=(None, 1.0, 0.25)[world.choose("send_timeout", 3)])
                    except OSError as exc:
                        if not (sc.errors and exc.errno == errno.ECONNREFUSED):
                            raise
                        # legitimate: the pending socket error was reported by this send (nothing is demanded about the wire)
                        world.log("outcome", "tx", "oserr", len(sc.lib.sent_log) - before)
                        world.probe("send-reported-pending-socket-error")
                        continue
                    sc.check_send(p, d, sc.lib.sent_log[before:])
                    world.progress(1)
                else:
                    tsel = world.choose("recv_timeout", 4)
                    if tsel == 3 and (sc.lib.dgram_q or sc.pending > 0):
                        timeout: float | None = None  # something is guaranteed to arrive
                    else:
                        timeout = (0.0, 1 / 64.0, 5 / 64.0, 0.5)[tsel]
                    do_recv(timeout)
                    if sc.rx_slow:
                        _vsleep(world, sc.rx_slow)
            # drain: keep receiving until the network is quiet and a receive timed out on an empty socket
            for _ in range(400):
                got = do_recv(0.5)
                if not got and sc.network_quiet() and not sc.lib.dgram_q:
                    break
                if got and sc.rx_slow and world.choose("drain_slow", 2):
                    _vsleep(world, sc.rx_slow)
            else:
                raise HarnessError("C05 sync drain did not finish in 400 receive calls")
            sc.check_receive(final=True)
        finally:
            ep.close()
            sc.close_all()


# ================================================================================================ asyncio harnesses
# receive modes of the asyncio harnesses (0 = the boring one) and the delays used for timeouts / cancellations (0 first)
_RX_MODES = ("plain", "timeout", "move-on", "iter", "cancel")
_RX_TIMES = (0.0, 1 / 64.0, 2 / 64.0, 5 / 64.0)

def _h_aio(world: World, variant: str) -> None:
    from vsim.backend import SimAsyncIOBackend
    from vsim.loop import run_async

    sc = Scenario(world, "aio", variant)
    protocol = sc.entry.datagram_protocol(None, True)
    backend = SimAsyncIOBackend(sc.net)
    state = {"sent": 0}
    # how this run receives: 0 = plain recv_packet() only | 1 = every call draws its mode | 2 = one interrupting mode for the whole run
    rx_style = world.choose("rx_style", 3)
    rx_fixed = 1 + world.choose("rx_fixed_mode", len(_RX_MODES) - 1) if rx_style == 2 else 0
    world.notes.update(rx_style=rx_style, rx_mode=_RX_MODES[rx_fixed] if rx_style == 2 else ("plain", "mixed")[rx_style])

    async def main() -> None:
        loop = asyncio.get_running_loop()
        swarm_selector(world, loop.sim_selector)  # type: ignore[attr-defined]
        if variant == "endpoint":
            from easynetwork.lowlevel.api_async.endpoints.datagram import AsyncDatagramEndpoint

            ep: Any = AsyncDatagramEndpoint(await backend.wrap_connected_datagram_socket(sc.lib), protocol)
        else:
            from easynetwork.clients.async_udp import AsyncUDPNetworkClient

            ep = AsyncUDPNetworkClient(sc.lib, protocol, backend)
            await ep.wait_connected()
        try:
            await body(ep)
        finally:
            try:
                await ep.aclose()
            except Exception:
                pass

    async def body(ep: Any) -> None:
        sc.check_script_claims()

        def failed(exc: BaseException) -> None:
            """a receive call ended with an exception that is neither a cancellation nor a timeout of the caller"""
            res = _classify_exc(exc)
            if res is None:
                sc.socket_error_outcome(exc)
            else:
                sc.record(res)

        def interrupted(how: str, timed: bool) -> None:
            """the call was cancelled / timed out: no outcome, and (receive clause) no datagram consumed"""
            sc.interrupted += 1
            world.log("outcome", "rx", how)
            world.fault("cancel_at_time" if timed else "cancel_at_iteration")
            world.probe("rx-interrupted:" + how)

        async def call_plain() -> bool:
            try:
                v = await ep.recv_packet()
            except asyncio.CancelledError:
                raise
            except BaseException as exc:
                failed(exc)
            else:
                sc.record(("pkt", v))
            return True

        async def call_timeout(t: float) -> bool:
            world.log("call", "recv", "timeout", t)
            try:
                with backend.timeout(t):
                    v = await ep.recv_packet()
            except TimeoutError:
                interrupted("timeout", t > 0)
                return False
            except asyncio.CancelledError:
                raise
            except BaseException as exc:
                failed(exc)
            else:
                sc.record(("pkt", v))
            return True

        async def call_move_on(t: float) -> bool:
            world.log("call", "recv", "move-on-after", t)
            got: list = []
            try:
                with backend.move_on_after(t) as scope:
                    got.append(await ep.recv_packet())
            except asyncio.CancelledError:
                raise
            except BaseException as exc:
                failed(exc)
                return True
            if got:
                sc.record(("pkt", got[0]))
                return True
            if not scope.cancelled_caught():
                raise HarnessError("move_on_after(): no result, no exception and the scope did not catch a cancellation")
            interrupted("move-on", t > 0)
            return False

        async def call_iter(t: float, n: int) -> bool:
            """AsyncUDPNetworkClient.iter_received_packets(): default timeout (0) or a small total budget; up to n items.
            The iterator turns TimeoutError and every other OSError into the end of the iteration (documented)."""
            world.log("call", "recv", "iter", t, n)
            it = ep.iter_received_packets() if t == 0 else ep.iter_received_packets(timeout=t)
            any_outcome = False
            for _ in range(n):
                try:
                    v = await anext(it)
                except StopAsyncIteration as stop:
                    cause = stop.__cause__
                    if isinstance(cause, TimeoutError):
                        interrupted("iter-timeout", t > 0)
                    elif isinstance(cause, BaseException):
                        failed(cause)  # an OSError reported by the socket ended the iteration: an outcome that consumes no datagram
                        any_outcome = True
                    else:
                        raise HarnessError("iter_received_packets() stopped without a cause")
                    break
                except asyncio.CancelledError:
                    raise
                except BaseException as exc:
                    failed(exc)  # parse error: the iterator object stays usable
                    any_outcome = True
                else:
                    sc.record(("pkt", v))
                    any_outcome = True
            return any_outcome

        async def call_cancel(d: float, hops: int) -> bool:
            """recv_packet() in its own task, task.cancel() from this one after d virtual seconds plus `hops` loop iterations
            (d > 0: this task wakes up in the loop iteration after the one in which a datagram arriving at that very time woke
            the receiving task up)"""
            world.log("call", "recv", "cancel", d, hops)
            inner = asyncio.create_task(ep.recv_packet(), name="c05-rx-call")
            try:
                if d:
                    await asyncio.sleep(d)
                for _ in range(hops):
                    await asyncio.sleep(0)
                if not inner.done():
                    world.log("cancel", "rx-call")
                    inner.cancel()
                await asyncio.wait({inner})
            except asyncio.CancelledError:  # the harness is stopping the receiver
                inner.cancel()
                await asyncio.gather(inner, return_exceptions=True)
                raise
            if inner.cancelled():
                interrupted("task-cancel", d > 0)
                return False
            exc = inner.exception()
            if exc is not None:
                failed(exc)
            else:
                sc.record(("pkt", inner.result()))
            return True

        async def receiver() -> None:
            if sc.rx_after_tx:
                await tx_done.wait()  # datagrams queue up in the endpoint while the sends (some of them failing) happen
            while True:
                mode = rx_fixed if rx_style == 2 else (world.choose("rx_mode", len(_RX_MODES)) if rx_style == 1 else 0)
                name = _RX_MODES[mode]
                if name == "iter" and variant != "client":
                    name = "timeout"  # the low-level endpoint has no iterator
                if name == "plain":
                    got = await call_plain()
                elif name == "cancel":
                    d = _RX_TIMES[world.choose("rx_cancel_after", len(_RX_TIMES))]
                    got = await call_cancel(d, world.choose("rx_cancel_hops", 3) + (0 if d else 1))
                else:
                    t = _RX_TIMES[world.choose("rx_timeout", len(_RX_TIMES))]
                    if name == "timeout":
                        got = await call_timeout(t)
                    elif name == "move-on":
                        got = await call_move_on(t)
                    else:
                        got = await call_iter(t, 1 + world.choose("rx_iter_n", 3))
                if sc.rx_slow:
                    await asyncio.sleep(sc.rx_slow)
                elif not got:
                    await asyncio.sleep(1 / 64.0)  # a poll that found nothing: come back later (virtual time must move on)

        async def sender() -> None:
            try:
                if sc.tx_start:
                    await asyncio.sleep(sc.tx_start)
                for i, (p, d) in enumerate(sc.sends):
                    if sc.tx_gap:
                        await asyncio.sleep(sc.tx_gap)
                    else:
                        await asyncio.sleep(0)
                    world.log("call", "send", len(d))
                    code = sc.send_fail.get(i)
                    plan = sc.send_plan
                    if code is not None and plan is not None:
                        plan.fail_next = code  # the kernel rejects the datagram of this send_packet
                    raised: OSError | None = None
                    try:
                        await ep.send_packet(p)
                    except OSError as exc:
                        raised = exc
                    fired = code is not None and plan is not None and plan.fail_next is None
                    if plan is not None:
                        plan.fail_next = None  # not consumed: b"" payload, nothing reached the socket (D10)
                    if fired:
                        sc.failed_sends.append(i)
                        world.probe("send-failed-in-kernel")
                        if sc.lib.dgram_q or len(sc.delivered()) > len(sc.outcomes):
                            world.probe("send-failed-with-received-datagrams-pending")
                    if raised is not None:
                        if not (fired and raised.errno == code):
                            raise raised
                        # legitimate: the error of this datagram is reported by the send itself (then not again by a receive)
                        world.log("outcome", "tx", "oserr", code)
                        world.probe("send-raised-injected-error")
                        sc.count_error_report("send_packet", raised)
                    state["sent"] += 1
                    if not fired:
                        world.progress(1)
            finally:
                tx_done.set()

        tx_done = asyncio.Event()
        rx = asyncio.create_task(receiver(), name="c05-rx")
        tx = asyncio.create_task(sender(), name="c05-tx")
        try:
            await tx
            # every scripted datagram handed to the network, every delayed copy delivered
            while not sc.network_quiet():
                await asyncio.sleep(1 / 64.0)
            # the receiver keeps receiving: give it ample virtual time (slow receiver: rx_slow per datagram, EAGAIN retries)
            deadline = world.now + 2.0 + (sc.rx_slow + 4 / 64.0) * (len(sc.delivered()) + 1)
            while len(sc.outcomes) < len(sc.delivered()) and world.now < deadline:
                await asyncio.sleep(1 / 64.0)
            for _ in range(8):  # flush a transport buffer left by an injected EAGAIN on sendto
                if len(sc.lib.sent_log) >= sum(1 for i, (_p, d) in enumerate(sc.sends) if d and i not in sc.failed_sends):
                    break
                await asyncio.sleep(1 / 64.0)
            await asyncio.sleep(2 / 64.0)
        finally:
            rx.cancel()
            tx.cancel()
            await asyncio.gather(rx, tx, return_exceptions=True)
        for t in (rx, tx):
            if not t.cancelled() and t.exception() is not None:
                raise t.exception()  # type: ignore[misc]
        sc.check_all_sends(state["sent"])
        sc.check_receive(final=True)

    try:
        run_async(world, main)
    finally:
        sc.close_all()


HARNESSES = [
    Harness("sync-endpoint", lambda w: _h_sync(w, "endpoint")),
    Harness("sync-client", lambda w: _h_sync(w, "client")),
    Harness("aio-endpoint", lambda w: _h_aio(w, "endpoint")),
    Harness("aio-client", lambda w: _h_aio(w, "client")),
]


def evidence_extra(merged: dict) -> dict:
    return {"serializer_entries": len(_ENTRIES), "serializer_source": MATRIX_SOURCE}
