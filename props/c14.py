"""C14 — closing releases the underlying resource at every cancellation point (DESIGN §4 C14).  Fault enumeration.

One run = one seeded base scenario of one close path, executed once to count the loop iterations J during which the
closing task is alive, then re-executed J+1 times with ``task.cancel()`` injected on the closing task *before loop
iteration j* (a task steps at most once per iteration, so this covers every suspension point of that scenario).
Nothing is drawn during the sweep: a replay fails at the same j.
"""
from __future__ import annotations

import asyncio
import errno
import os
from typing import Any, Callable

from easynetwork.clients.async_tcp import AsyncTCPNetworkClient
from easynetwork.lowlevel.api_async.endpoints.stream import AsyncStreamEndpoint
from easynetwork.lowlevel.api_async.transports import abc as _tr
from easynetwork.lowlevel.api_async.transports.composite import AsyncStapledDatagramTransport, AsyncStapledStreamTransport
from easynetwork.lowlevel.api_async.transports.tls import AsyncTLSStreamTransport
from easynetwork.protocol import StreamProtocol
from easynetwork.serializers.line import StringLineSerializer
from easynetwork.servers.async_tcp import AsyncTCPNetworkServer
from easynetwork.servers.handlers import AsyncStreamRequestHandler

from vsim.backend import SimAsyncIOBackend, sim_sockets
from vsim.harness import Peer
from vsim.loop import run_async
from vsim.runner import Harness
from vsim.sock import Delivery, SimNet
from vsim.tls import TLSPeer, make_context
from vsim.world import Deadlock, HarnessError, StepCap, Violation, World

PROPERTY = "C14"
LEVEL = "fault_enumeration"
RULE = (
    "base scenario of one close path (socket adapter / stream endpoint incl. a close with > 256 KiB unread = transport that paused reading and does not see the peer's reset, async TCP client idle / with a back-pressured sender / still connecting (through wait_connected() or through a send_packet() holding the send lock) / built around a given socket and never used, "
    "server-side client with or without a sender holding the lock, teardown of the low-level server's connection task (handler returns / raises / peer half-closes / serving task group cancelled, with or without unsent bytes buffered against a peer that does not read), TLS aclose with a peer that answers close_notify promptly / late / never / FIN / RST, "
    "TLS wrap with a stalled / garbage / cut handshake or a server_hostname the ssl module rejects, stapled stream and datagram transports with a failing or slow first half, wrapped-transport errors at call n); "
    "fault = task.cancel() on the closing task before loop iteration j, for every j of the base run; a case is one (scenario, j); "
    "non-trivial = the cancellation was delivered while the close was in progress"
)
COMPONENTS_REAL = [
    "easynetwork AsyncTLSStreamTransport.aclose/wrap, AsyncStapled*Transport.aclose, aclose_forcefully",
    "easynetwork AsyncioTransportStreamSocketAdapter.aclose, AsyncStreamEndpoint.aclose, AsyncTCPNetworkClient.aclose",
    "easynetwork servers/async_tcp.py _ConnectedClientAPI.aclose, lowlevel servers/stream.py client task",
    "CPython asyncio loop/transports, OpenSSL",
]
COMPONENTS_STUB = ["socket, selector, clock", "reference TLS peer", "in-memory transport doubles for the stapled transports (honour the documented aclose contract)"]
ASSUMPTIONS = [
    "complete only for the base scenarios swept",
    "a task steps at most once per loop iteration, so cancelling before every iteration reaches every await of the close path",
    "transport doubles close synchronously at the start of aclose() and then wait, like the real transports",
]
BUDGET = {"quick": 45, "thorough": 540}


# ================================================================================================ doubles
class MemTransport(_tr.AsyncStreamTransport):
    """in-memory stream transport double: aclose() marks closing synchronously, then waits `close_wait` loop turns /
    virtual seconds; cancellation while waiting closes abruptly (documented contract)."""

    def __init__(self, backend, name: str, close_turns: int = 0, close_sleep: float = 0.0, close_error: str | None = None):
        self._backend = backend
        self.name = name
        self.close_turns = close_turns
        self.close_sleep = close_sleep
        self.close_error = close_error  # None | "before" (raise before doing anything) | "after" (close, then raise)
        self.closing = False
        self.closed = False
        self.abrupt = False
        self.close_calls = 0

    async def aclose(self) -> None:
        self.close_calls += 1
        if self.closed:
            return
        if self.close_error == "before":
            raise OSError(errno.EIO, f"{self.name}: injected close error")
        self.closing = True
        try:
            for _ in range(self.close_turns):
                await asyncio.sleep(0)
            if self.close_sleep:
                await asyncio.sleep(self.close_sleep)
        except asyncio.CancelledError:
            self.abrupt = True
            self.closed = True
            raise
        self.closed = True
        if self.close_error == "after":
            raise OSError(errno.EIO, f"{self.name}: injected close error")

    def is_closing(self) -> bool:
        return self.closing

    def backend(self):
        return self._backend

    async def recv(self, bufsize: int) -> bytes:
        await asyncio.sleep(3600)
        return b""

    async def recv_into(self, buffer) -> int:
        await asyncio.sleep(3600)
        return 0

    async def send_all(self, data) -> None:
        await asyncio.sleep(0)

    async def send_eof(self) -> None:
        pass

    @property
    def extra_attributes(self):
        return {}


class MemDatagramTransport(_tr.AsyncDatagramTransport):
    def __init__(self, backend, name: str, close_turns: int = 0, close_sleep: float = 0.0, close_error: str | None = None):
        self._m = MemTransport(backend, name, close_turns, close_sleep, close_error)

    async def aclose(self) -> None:
        await self._m.aclose()

    def is_closing(self) -> bool:
        return self._m.closing

    def backend(self):
        return self._m._backend

    async def recv(self) -> bytes:
        await asyncio.sleep(3600)
        return b""

    async def send(self, data) -> None:
        await asyncio.sleep(0)

    @property
    def extra_attributes(self):
        return {}


class FaultyTransport(_tr.AsyncStreamTransport):
    """delegating wrapper that raises OSError at the n-th call of an operation of the wrapped (real) transport"""

    def __init__(self, inner, fail_at: dict[str, int]):
        self.inner = inner
        self.fail_at = dict(fail_at)
        self.counts: dict[str, int] = {}
        self.fired: list[str] = []
        self.armed = True

    def _hit(self, op: str) -> None:
        if not self.armed:
            return
        n = self.counts.get(op, 0)
        self.counts[op] = n + 1
        if op in self.fail_at and n == self.fail_at[op]:
            self.fired.append(op)
            raise OSError(errno.EIO, f"injected {op} error")

    async def aclose(self) -> None:
        try:
            self._hit("aclose")
        except OSError:
            # a real transport that fails in aclose() has still released its resource
            await self.inner.aclose()
            raise
        await self.inner.aclose()

    def is_closing(self) -> bool:
        return self.inner.is_closing()

    def backend(self):
        return self.inner.backend()

    async def recv(self, bufsize: int) -> bytes:
        self._hit("recv")
        return await self.inner.recv(bufsize)

    async def recv_into(self, buffer) -> int:
        self._hit("recv_into")
        return await self.inner.recv_into(buffer)

    async def send_all(self, data) -> None:
        self._hit("send_all")
        await self.inner.send_all(data)

    async def send_all_from_iterable(self, it) -> None:
        self._hit("send_all")
        await self.inner.send_all_from_iterable(it)

    async def send_eof(self) -> None:
        await self.inner.send_eof()

    @property
    def extra_attributes(self):
        return self.inner.extra_attributes


# ================================================================================================ sweep machinery
class Ctx:
    """one execution of a scenario; owns the cancellation injection on the closing task"""

    def __init__(self, parent: World, cancel_at: int | None):
        self.w = World(parent=parent)
        self.w.quiet = True
        self.cancel_at = cancel_at
        self.task: asyncio.Task | None = None
        self.start_iter = 0
        self.end_iter: int | None = None
        self.cancel_fired = False
        self.outcome: str = "?"
        self.net = SimNet(self.w)
        self.backend = SimAsyncIOBackend(self.net)
        self.w.iteration_hooks.append(self._hook)

    def _hook(self) -> None:
        t = self.task
        if t is None or self.cancel_fired or self.cancel_at is None:
            return
        if t.done():
            return
        k = self.w.counters["loop_iterations"] - self.start_iter  # 1 on the first iteration after arming
        if k == self.cancel_at + 1:
            self.cancel_fired = True
            t.cancel()
            self.w.log("cancel", "closer", self.cancel_at)
            asyncio.get_event_loop()._write_to_self()  # the selector must not block: a callback just became ready

    async def close_under_sweep(self, close_coro_fn: Callable[[], Any]) -> str:
        """run `await close_coro_fn()` in a named task which the sweep may cancel; returns the outcome"""

        async def closer() -> str:
            try:
                await close_coro_fn()
            except asyncio.CancelledError:
                return "cancelled"
            except Exception as e:
                return "exc:" + type(e).__name__
            return "ok"

        self.task = asyncio.get_running_loop().create_task(closer(), name="closer")
        self.start_iter = self.w.counters["loop_iterations"]
        if self.cancel_at is not None:
            # if the loop goes idle before iteration j is reached (e.g. the close waits for a peer that never reads in
            # this run), the cancellation simply arrives later in time
            def late_cancel() -> None:
                t = self.task
                if t is not None and not t.done() and not self.cancel_fired:
                    self.cancel_fired = True
                    t.cancel()
                    self.w.log("cancel", "closer", "late")
                    asyncio.get_event_loop()._write_to_self()

            self.w.after(500.0, late_cancel)
        try:
            self.outcome = await self.task
        except asyncio.CancelledError:
            if not self.task.cancelled():
                raise
            # cancelled before its first step: the close operation never started, nothing is demanded
            self.outcome = "not-started"
        finally:
            self.end_iter = self.w.counters["loop_iterations"]
        return self.outcome

    @property
    def J(self) -> int:
        assert self.end_iter is not None
        return self.end_iter - self.start_iter

    async def settle(self, n: int = 6) -> None:
        for _ in range(n):
            await asyncio.sleep(0)

    async def second_close_is_prompt(self, close_coro_fn: Callable[[], Any]) -> bool:
        t0, n0 = self.w.now, self.w.counters["loop_iterations"]
        try:
            await close_coro_fn()
        except Exception:
            pass
        except asyncio.CancelledError:
            # nobody cancelled this task: a CancelledError out of a second close is the close path's own (e.g. a shared
            # future cancelled by the first, cancelled, close)
            self.w.log("second_close", "CancelledError")
            return False
        return self.w.now == t0 and self.w.counters["loop_iterations"] - n0 <= 8


def _sweep(world: World, name: str, scn: dict, execute: Callable[[World, dict, int | None], int]) -> None:
    world.notes.update(path=name, scenario=scn)
    J = execute(world, scn, None)
    world.progress()
    world.notes.update(J=J)
    if J > 400:
        raise HarnessError(f"{name}: base run needs {J} iterations; scenario generator out of bounds")
    for j in range(J + 1):
        world.counters["sweep_points"] += 1
        execute(world, scn, j)


def _fail(path: str, clause: str, msg: str, scn: dict, cancel_at: int | None, site: str = "") -> Violation:
    key = f"C14/{path}/{clause}" + (f"/{site}" if site else "")
    return Violation(clause, f"{msg}; cancel before iteration j={cancel_at}; scenario={scn}", key=key)


def _run(ctx: Ctx, main: Callable[[], Any], path: str, scn: dict) -> None:
    try:
        with sim_sockets(ctx.net):
            run_async(ctx.w, main)
    except Deadlock:
        raise _fail(path, "blocked", "no task can make progress (close never finishes / a task is left blocked)", scn, ctx.cancel_at) from None
    if ctx.cancel_fired:
        ctx.w.fault("cancel_at_iteration")


# ================================================================================================ path: socket adapter / endpoint
def _x_adapter(world: World, scn: dict, cancel_at: int | None) -> int:
    ctx = Ctx(world, cancel_at)
    lib, psock = ctx.net.socketpair(capacity_ab=scn["cap"], delivery_ab=Delivery.cyclic([scn["frag"]], [scn["delay"]]))
    peer = Peer(ctx.w, psock)
    if scn["peer_paused"]:
        peer.reading = False
    path = "endpoint" if scn["endpoint"] else "adapter"

    async def main() -> None:
        tr = await ctx.backend.wrap_stream_socket(lib)
        obj: Any = AsyncStreamEndpoint(tr, StreamProtocol(StringLineSerializer()), 4096) if scn["endpoint"] else tr
        sender = None
        if scn["pending"]:
            # queued data at close time: a sender blocked by backpressure on the RAW transport (never on the endpoint: not task-safe by contract)
            async def send() -> None:
                try:
                    await tr.send_all(b"x" * scn["pending"])
                except (OSError, asyncio.CancelledError):
                    pass

            sender = asyncio.get_running_loop().create_task(send(), name="sender")
            await asyncio.sleep(scn["pre"] / 64)
        if scn["peer_paused"] and scn["pending"] and cancel_at is None:
            # base run only: a graceful close waits for queued data, so the peer must read eventually; in the swept runs
            # the peer never reads again, and a cancelled close must still release the socket
            ctx.w.after(0.5, peer.resume_reading)
        if scn.get("unread"):
            # the peer has sent more than the application read: the transport's receive buffer is full and it has PAUSED
            # READING, so the loop no longer watches the socket and will not notice a FIN / RST by itself (the half-close
            # of aclose() then fails with ENOTCONN after a reset: the transport has to be closed all the same)
            peer.write(b"u" * scn["unread"])
            await asyncio.sleep(1 / 64)
            ctx.w.probe("adapter_close_with_unread_bytes")
        if scn["peer_event"] == "fin":
            peer.fin()
        elif scn["peer_event"] == "rst":
            peer.reset()
        await ctx.close_under_sweep(obj.aclose)
        await ctx.settle()
        if ctx.outcome == "not-started":
            peer.resume_reading()
            await obj.aclose()
            return
        if not obj.is_closing():
            raise _fail(path, "is-closing", f"is_closing() is False after aclose() ended with {ctx.outcome}", scn, cancel_at)
        if not lib.sim_closed:
            raise _fail(path, "socket-open", f"socket still open after aclose() ended with {ctx.outcome}", scn, cancel_at)
        if not await ctx.second_close_is_prompt(obj.aclose):
            raise _fail(path, "second-close-slow", "second aclose() did not return promptly", scn, cancel_at)
        if sender is not None:
            await asyncio.wait([sender], timeout=5)
            if not sender.done():
                raise _fail(path, "sender-stranded", "a sender blocked at close time never finished", scn, cancel_at)

    _run(ctx, main, path, scn)
    return ctx.J


def _h_adapter(world: World) -> None:
    scn = {
        "endpoint": bool(world.choose("endpoint", 2)),
        "cap": world.pick("cap", [1 << 20, 64, 1024]),
        "frag": world.pick("frag", [1 << 30, 1, 7]),
        "delay": world.choose("delay", 3),
        "pending": world.pick("pending", [0, 50, 5000]),
        "peer_paused": bool(world.choose("paused", 2)),
        "pre": world.choose("pre", 3),
        "peer_event": world.pick("peer_event", ["none", "fin", "rst"]),
        # bytes the peer sent and nobody read (> 256 KiB fills the transport's buffer: reading is paused at close time)
        "unread": world.pick("unread", [0, 0, 100, 300 * 1024]),
    }
    if scn["pending"] > 50 and scn["frag"] < 64:
        scn["frag"] = 64  # keep the base run (and therefore the sweep) short
    _sweep(world, "endpoint" if scn["endpoint"] else "adapter", scn, _x_adapter)


# ================================================================================================ path: async TCP client
def _x_client(world: World, scn: dict, cancel_at: int | None) -> int:
    ctx = Ctx(world, cancel_at)
    net = ctx.net
    path = "client-" + scn["state"]
    peers: list[Peer] = []

    def on_peer(sock) -> None:
        p = Peer(ctx.w, sock)
        if scn["peer_paused"]:
            p.reading = False
        peers.append(p)

    if scn["state"] in ("connecting", "connecting-sender"):
        net.connect_script = lambda sock, addr: ("never", 0.0) if scn["connect"] == "never" else ("ok", scn["connect_delay"] / 64, on_peer)
    else:
        net.connect_script = lambda sock, addr: ("ok", 0.0, on_peer)
    net.default_capacity = scn["cap"]

    async def main() -> None:
        if scn["state"] == "given-socket":
            # the client is built around an already connected socket and closed before any operation performed the (lazy)
            # wrapping of that socket: the socket it owns must be closed all the same
            given, far = net.socketpair()
            given.label = "s-given"
            Peer(ctx.w, far)
            client = AsyncTCPNetworkClient(given, StreamProtocol(StringLineSerializer()), backend=ctx.backend)
        else:
            client = AsyncTCPNetworkClient(("127.0.0.1", 4000), StreamProtocol(StringLineSerializer()), backend=ctx.backend)
        sender = None
        connector = None
        if scn["state"] == "given-socket":
            pass
        elif scn["state"] == "connecting-sender":
            # the lazy connection is performed by a send_packet() call, i.e. under the send lock the close has to wait for
            async def first_send() -> None:
                try:
                    await client.send_packet("first")
                except (OSError, asyncio.CancelledError, Exception):
                    pass

            sender = asyncio.get_running_loop().create_task(first_send(), name="sender")
            await asyncio.sleep(scn["pre"] / 64)
        elif scn["state"] == "connecting":
            async def connect() -> None:
                try:
                    await client.wait_connected()
                except (OSError, asyncio.CancelledError, Exception):
                    pass

            connector = asyncio.get_running_loop().create_task(connect(), name="connector")
            await asyncio.sleep(scn["pre"] / 64)
        else:
            await client.wait_connected()
            if scn["state"] == "sending":
                async def send() -> None:
                    try:
                        await client.send_packet("y" * scn["pending"])
                    except (OSError, asyncio.CancelledError, Exception):
                        pass

                sender = asyncio.get_running_loop().create_task(send(), name="sender")
                await asyncio.sleep(scn["pre"] / 64)
        if scn["peer_resumes"] and peers:
            ctx.w.after(scn["peer_resumes"] / 64, lambda: peers[0].resume_reading())
        await ctx.close_under_sweep(client.aclose)
        await ctx.settle()
        if ctx.outcome == "not-started":
            await client.aclose()
            await ctx.settle()
        open_socks = [s.label for s in ctx.w.sockets if not s.sim_closed and s.label.startswith("s") and not s.label.endswith("@peer")]
        if open_socks:
            raise _fail(path, "socket-open", f"library socket(s) {open_socks} still open after aclose() ended with {ctx.outcome}", scn, cancel_at, site="cancelled" if ctx.outcome == "cancelled" else "returned")
        if not client.is_closing():
            raise _fail(path, "is-closing", f"is_closing() is False after aclose() ended with {ctx.outcome}", scn, cancel_at)
        if not await ctx.second_close_is_prompt(client.aclose):
            raise _fail(path, "second-close-slow", "second aclose() did not return promptly", scn, cancel_at)
        for t in (sender, connector):
            if t is not None:
                await asyncio.wait([t], timeout=5)
                if not t.done():
                    raise _fail(path, "task-stranded", f"task {t.get_name()} never finished after the close", scn, cancel_at)

    _run(ctx, main, path, scn)
    return ctx.J


def _h_client(world: World) -> None:
    state = world.pick("state", ["idle", "sending", "connecting", "given-socket", "connecting-sender"])
    scn = {
        "state": state,
        "cap": world.pick("cap", [1 << 20, 64, 1024]),
        "pending": world.pick("pending", [10, 300, 5000]),
        "peer_paused": state == "sending" and bool(world.choose("paused", 2)),
        "peer_resumes": world.pick("resumes", [2, 16, 64]),
        "pre": world.choose("pre", 3),
        "connect": world.pick("connect", ["never", "late"]),
        "connect_delay": world.pick("cdelay", [1, 4, 32]),
    }
    _sweep(world, "client-" + state, scn, _x_client)


# ================================================================================================ path: async UDP client
def _x_udp_client(world: World, scn: dict, cancel_at: int | None) -> int:
    import socket as _s

    from easynetwork.clients.async_udp import AsyncUDPNetworkClient
    from easynetwork.protocol import DatagramProtocol

    from vsim.sock import SimSocket

    ctx = Ctx(world, cancel_at)
    net = ctx.net
    path = "udp-client-" + scn["state"]

    async def main() -> None:
        sock = SimSocket(net, _s.AF_INET, _s.SOCK_DGRAM, 0, "udp")
        net.bind(sock, ("127.0.0.1", 0))
        sock.connect(("127.0.0.1", 9999))
        client = AsyncUDPNetworkClient(sock, DatagramProtocol(StringLineSerializer()), backend=ctx.backend)
        await client.wait_connected()
        senders = []
        if scn["state"] == "sending":
            sock.dgram_send_room = 0  # the kernel send buffer is full: sendto() -> EAGAIN, asyncio queues the datagrams

            async def send(i: int) -> None:
                try:
                    await client.send_packet("d%d" % i * scn["pending"])
                except (OSError, asyncio.CancelledError, Exception):
                    pass

            for i in range(scn["nsenders"]):
                senders.append(asyncio.get_running_loop().create_task(send(i), name=f"sender{i}"))
            await asyncio.sleep(scn["pre"] / 64)
            if cancel_at is None:
                # base run: a graceful close waits for queued datagrams, so the buffer must drain eventually
                ctx.w.after(0.5, lambda: setattr(sock, "dgram_send_room", None))
        await ctx.close_under_sweep(client.aclose)
        await ctx.settle()
        if ctx.outcome == "not-started":
            sock.dgram_send_room = None
            await client.aclose()
            await ctx.settle()
        if ctx.outcome.startswith("exc:"):
            raise _fail(path, "close-raised", f"aclose() ended with {ctx.outcome}", scn, cancel_at, site=ctx.outcome[4:])
        if not sock.sim_closed:
            raise _fail(path, "socket-open", f"socket still open after aclose() ended with {ctx.outcome}", scn, cancel_at, site="cancelled" if ctx.outcome == "cancelled" else "returned")
        if not client.is_closing():
            raise _fail(path, "is-closing", f"is_closing() is False after aclose() ended with {ctx.outcome}", scn, cancel_at)
        if not await ctx.second_close_is_prompt(client.aclose):
            raise _fail(path, "second-close-slow", "second aclose() did not return promptly", scn, cancel_at)
        for t in senders:
            await asyncio.wait([t], timeout=5)
            if not t.done():
                raise _fail(path, "task-stranded", f"task {t.get_name()} never finished after the close", scn, cancel_at)

    _run(ctx, main, path, scn)
    return ctx.J


def _h_udp_client(world: World) -> None:
    state = world.pick("state", ["idle", "sending"])
    scn = {"state": state, "pending": world.pick("pending", [1, 50]), "nsenders": 1 + world.choose("nsenders", 2), "pre": world.choose("pre", 3)}
    _sweep(world, "udp-client-" + state, scn, _x_udp_client)


# ================================================================================================ path: server-side client
def _x_server_client(world: World, scn: dict, cancel_at: int | None) -> int:
    ctx = Ctx(world, cancel_at)
    net = ctx.net
    path = "server-client" + ("-sending" if scn["sender"] else "")
    state: dict[str, Any] = {}

    class H(AsyncStreamRequestHandler):
        async def handle(self, client):
            req = yield
            state["client"] = client
            state["go"].set()
            # keep the connection handler alive (like a handler waiting for the next request)
            try:
                while True:
                    yield
            finally:
                state["handler_done"] = True

    async def main() -> None:
        state["go"] = asyncio.Event()
        proto = StreamProtocol(StringLineSerializer())
        srv = AsyncTCPNetworkServer("127.0.0.1", 5000, proto, H(), backend=ctx.backend)
        serve = asyncio.get_running_loop().create_task(srv.serve_forever(), name="serve")
        for _ in range(50):
            if ("127.0.0.1", 5000) in net.listeners:
                break
            await asyncio.sleep(0)
        psock = net.connect_to_listener(net.listeners[("127.0.0.1", 5000)], capacity_ab=scn["cap"])
        peer = Peer(ctx.w, psock)
        peer.write(b"hello\n")
        await state["go"].wait()
        client = state["client"]
        srv_sock = [s for s in ctx.w.sockets if s.label.endswith("@srv")][0]
        sender = None
        if scn["sender"]:
            peer.reading = False

            async def send() -> None:
                try:
                    await client.send_packet("z" * scn["pending"])
                except (OSError, asyncio.CancelledError, Exception):
                    pass

            sender = asyncio.get_running_loop().create_task(send(), name="sender")
            await asyncio.sleep(scn["pre"] / 64)
            if scn["peer_resumes"]:
                ctx.w.after(scn["peer_resumes"] / 64, peer.resume_reading)
        await ctx.close_under_sweep(client.aclose)
        await ctx.settle()
        if ctx.outcome == "not-started":
            await client.aclose()
            await ctx.settle()
        if ctx.outcome.startswith("exc:"):
            raise _fail(path, "close-raised", f"aclose() ended with {ctx.outcome} (neither returned nor was cancelled)", scn, cancel_at, site=ctx.outcome[4:])
        if not srv_sock.sim_closed:
            raise _fail(path, "socket-open", f"connection socket still open after aclose() ended with {ctx.outcome}", scn, cancel_at, site="cancelled" if ctx.outcome == "cancelled" else "returned")
        if not client.is_closing():
            raise _fail(path, "is-closing", f"is_closing() is False after aclose() ended with {ctx.outcome}", scn, cancel_at)
        if not await ctx.second_close_is_prompt(client.aclose):
            raise _fail(path, "second-close-slow", "second aclose() did not return promptly", scn, cancel_at)
        if sender is not None:
            await asyncio.wait([sender], timeout=5)
            if not sender.done():
                raise _fail(path, "task-stranded", "the sender never finished after the close", scn, cancel_at)
        await srv.shutdown()
        await srv.server_close()
        await asyncio.wait([serve], timeout=5)

    _run(ctx, main, path, scn)
    return ctx.J


def _h_server_client(world: World) -> None:
    sender = bool(world.choose("sender", 2))
    scn = {
        "sender": sender,
        "cap": world.pick("cap", [64, 1024]) if sender else 1 << 20,
        "pending": world.pick("pending", [5000, 300]),
        "pre": world.choose("pre", 3),
        "peer_resumes": world.pick("resumes", [2, 16, 64]),
    }
    _sweep(world, "server-client" + ("-sending" if sender else ""), scn, _x_server_client)


# ================================================================================================ path: server-side teardown
def _x_server_teardown(world: World, scn: dict, cancel_at: int | None) -> int:
    """the per-connection task of the low-level AsyncStreamServer ends (handler returns / raises / peer half-closes / the
    serving task group is cancelled = what a shutdown does) while unsent bytes may sit in the write buffer and the peer
    does not read: the teardown must close the connection socket, whatever the state of the write buffer.  The sweep
    cancels the serving task at every loop iteration after the teardown could have started."""
    from easynetwork.lowlevel.api_async.servers.stream import AsyncStreamServer

    ctx = Ctx(world, cancel_at)
    net = ctx.net
    path = "server-teardown-" + scn["end"]
    state: dict[str, Any] = {}

    async def handler(client):  # type: ignore[no-untyped-def]
        state["client"] = client
        state["go"].set()
        try:
            if scn["buffered"]:
                with ctx.backend.move_on_after(scn["send_timeout"] / 64) as scope:
                    await client.send_packet("z" * scn["pending"])
                state["send_timed_out"] = scope.cancelled_caught()
            if scn["end"] == "return":
                return
            if scn["end"] == "raise":
                raise RuntimeError("handler failure (part of the workload)")
            while True:  # "eof": wait for the peer's half-close; "cancel": wait until the serving task group is cancelled
                yield
        finally:
            state["handler_done_at"] = ctx.w.now
            state["done"].set()

    async def main() -> None:
        import logging

        logging.getLogger("easynetwork").setLevel(logging.CRITICAL)
        state["go"] = asyncio.Event()
        state["done"] = asyncio.Event()
        (listener,) = await ctx.backend.create_tcp_listeners("127.0.0.1", 5000, backlog=10)
        server = AsyncStreamServer(listener, StreamProtocol(StringLineSerializer()), max_recv_size=8192)

        async def serve() -> None:
            async with ctx.backend.create_task_group() as tg:
                await server.serve(handler, tg)

        psock = net.connect_to_listener(net.listeners[("127.0.0.1", 5000)], capacity_ab=scn["cap"])
        peer = Peer(ctx.w, psock)
        peer.reading = False  # the peer never reads (unless peer_resumes)
        if scn["peer_resumes"]:
            ctx.w.after(scn["peer_resumes"] / 64, peer.resume_reading)

        async def until_torn_down() -> None:
            # the "close operation" under sweep: everything from the start of serve() to the end of the connection task
            t = asyncio.get_running_loop().create_task(serve(), name="serve")
            state["serve"] = t
            try:
                await state["go"].wait()
                if scn["end"] == "eof":
                    await asyncio.sleep(scn["pre"] / 64)
                    peer.write(b"last\n")
                    peer.close()  # FIN: the peer will not write any more; it still does not read
                elif scn["end"] == "cancel":
                    await asyncio.sleep(scn["pre"] / 64)
                    t.cancel()
                await state["done"].wait()
                await asyncio.sleep(10.0)
                state["closed_10s_after_handler_end"] = [s_ for s_ in ctx.w.sockets if s_.label.endswith("@srv")][0].sim_closed
            finally:
                if not t.done():
                    t.cancel()
                await asyncio.wait([t], timeout=50.0)

        await ctx.close_under_sweep(until_torn_down)
        await ctx.settle()
        serve_task = state.get("serve")
        if "client" not in state:
            return  # cancelled before the connection was handed to the handler: nothing started
        srv_sock = [s_ for s_ in ctx.w.sockets if s_.label.endswith("@srv")][0]
        if scn["buffered"] and scn["end"] in ("return", "raise") and ctx.outcome == "ok" and not state.get("send_timed_out") and not scn["peer_resumes"]:
            raise HarnessError("server-teardown: the send was expected to time out against a peer that does not read")
        if serve_task is not None and not serve_task.done():
            raise _fail(path, "serve-task-stranded", "the serving task group did not terminate after being cancelled", scn, cancel_at)
        if not srv_sock.sim_closed or state.get("closed_10s_after_handler_end") is False:
            raise _fail(
                path,
                "socket-open",
                f"connection socket still open {'10' if srv_sock.sim_closed else format(ctx.w.now - state.get('handler_done_at', ctx.w.now), '.1f')} s after the connection handler ended ({scn['end']}); sweep outcome {ctx.outcome}; unsent bytes buffered={scn['buffered']}",
                scn,
                cancel_at,
                site="buffered" if scn["buffered"] else "empty",
            )
        await server.aclose()

    _run(ctx, main, path, scn)
    return ctx.J


def _h_server_teardown(world: World) -> None:
    scn = {
        "end": world.pick("end", ["return", "raise", "eof", "cancel"]),
        "buffered": bool(world.choose("buffered", 3)),
        "cap": world.pick("cap", [4096, 16384]),
        "pending": world.pick("pending", [100000, 400000]),
        "send_timeout": 1 + world.choose("send_timeout", 8),
        "pre": world.choose("pre", 3),
        "peer_resumes": world.pick("resumes", [0, 0, 600]),
    }
    world.fault("peer_stops_reading")
    _sweep(world, "server-teardown-" + scn["end"], scn, _x_server_teardown)


# ================================================================================================ path: TLS aclose / wrap
def _x_tls(world: World, scn: dict, cancel_at: int | None) -> int:
    ctx = Ctx(world, cancel_at)
    lib, psock = ctx.net.socketpair(delivery_ab=Delivery.cyclic([scn["frag_l2p"]], [scn["delay"]]), delivery_ba=Delivery.cyclic([scn["frag_p2l"]], [scn["delay"]]))
    lib_server = scn["lib_server"]
    peer = TLSPeer(ctx.w, psock, server_side=not lib_server, version=scn["version"])
    path = "tls-" + scn["op"]
    mode = scn["peer_close"]
    if scn["op"] == "wrap":
        # handshake faults
        if scn["hs_fault"] == "stall":
            psock.tx_pipe.stall()  # type: ignore[union-attr]
        elif scn["hs_fault"] == "cut":
            psock.tx_pipe.fin_at = scn["hs_cut"]  # type: ignore[union-attr]
        elif scn["hs_fault"] == "garbage":
            peer.closed = True  # the engine stays silent; raw garbage instead
            ctx.w.after(1 / 64, lambda: psock.tx_pipe.write(b"\x16\x03\x01\x00\x05hello" + bytes(40)))  # type: ignore[union-attr]

    async def main() -> None:
        raw = await ctx.backend.wrap_stream_socket(lib)
        inner: Any = FaultyTransport(raw, scn["fail_at"]) if scn["fail_at"] else raw
        kw = dict(server_side=lib_server, server_hostname=None if lib_server else "sim.host", standard_compatible=scn["std"], handshake_timeout=scn["hs_timeout"], shutdown_timeout=scn["sd_timeout"])
        if scn["op"] == "wrap" and scn["hs_fault"] == "bad-hostname" and not lib_server:
            kw["server_hostname"] = ".sim.host"  # the SSL object cannot even be created (empty IDNA label): wrap() fails before any I/O
        if scn["op"] == "wrap":
            box: dict[str, Any] = {}

            async def do_wrap() -> None:
                box["tls"] = await AsyncTLSStreamTransport.wrap(inner, make_context(lib_server, scn["version"]), **kw)

            await ctx.close_under_sweep(do_wrap)
            await ctx.settle()
            if ctx.outcome == "not-started":
                await raw.aclose()
                return
            if ctx.outcome == "ok":
                # handshake succeeded (no fault, or the cut was after the handshake): nothing to demand; close and leave
                with ctx.backend.move_on_after(3.0):
                    try:
                        await box["tls"].aclose()
                    except OSError:
                        pass
                return
            if not raw.is_closing() or not lib.sim_closed:
                raise _fail(path, "wrapped-open", f"wrap() ended with {ctx.outcome} but the wrapped transport is open (is_closing={raw.is_closing()}, socket closed={lib.sim_closed})", scn, cancel_at, site="cancelled" if ctx.outcome == "cancelled" else "failed")
            return
        if scn["fail_at"]:
            inner.armed = False  # the handshake is not the subject of this path: count calls from here on
        tls = await AsyncTLSStreamTransport.wrap(inner, make_context(lib_server, scn["version"]), **kw)
        if scn["exchange"]:
            await tls.send_all(b"ping")
            peer.write(b"pong")
            await tls.recv(100)
        # peer behaviour at close time
        if mode == "prompt":
            peer.auto_close_reply = True
        elif mode == "late":
            ctx.w.after(scn["late"] / 64, lambda: peer.close(notify=True))
        elif mode == "fin":
            ctx.w.after(scn["late"] / 64, peer.fin)
        elif mode == "rst":
            ctx.w.after(scn["late"] / 64, lambda: (psock.tx_pipe.reset(), setattr(psock.rx_pipe, "reader_closed", True)))  # type: ignore[union-attr]
        elif mode == "first":
            peer.close(notify=True)
            await asyncio.sleep(scn["late"] / 64)
        # "never": the peer stays silent -> shutdown timeout
        if scn["fail_at"]:
            inner.armed = True
            inner.fail_at = {k: (0 if k == "aclose" else v - 2) for k, v in scn["fail_at"].items()}
        await ctx.close_under_sweep(tls.aclose)
        await ctx.settle()
        if ctx.outcome == "not-started":
            with ctx.backend.move_on_after(3.0):
                try:
                    await tls.aclose()
                except OSError:
                    pass
            return
        if not tls.is_closing():
            raise _fail(path, "is-closing", f"is_closing() is False after aclose() ended with {ctx.outcome}", scn, cancel_at)
        if not raw.is_closing() or not lib.sim_closed:
            raise _fail(path, "wrapped-open", f"aclose() ended with {ctx.outcome} but the wrapped transport is open (is_closing={raw.is_closing()}, socket closed={lib.sim_closed})", scn, cancel_at, site="cancelled" if ctx.outcome == "cancelled" else ("failed" if ctx.outcome.startswith("exc") else "returned"))
        if not await ctx.second_close_is_prompt(tls.aclose):
            raise _fail(path, "second-close-slow", "second aclose() did not return promptly", scn, cancel_at)

    _run(ctx, main, path, scn)
    return ctx.J


def _h_tls(world: World) -> None:
    op = world.pick("op", ["aclose", "aclose", "wrap"])
    fail_at: dict[str, int] = {}
    ff = world.choose("transport_raises", 4)
    if ff == 1:
        fail_at = {"aclose": 0}
    elif ff == 2:
        fail_at = {"send_all": world.pick("send_n", [2, 3, 4, 5])}
    elif ff == 3:
        fail_at = {"recv_into": world.pick("recv_n", [2, 3, 4, 5])}
    if fail_at:
        world.fault("transport_raises")
    scn = {
        "op": op,
        "version": world.pick("version", ["1.3", "1.2"]),
        "lib_server": bool(world.choose("lib_server", 2)),
        "std": not bool(world.choose("nonstd", 4) == 3),
        "frag_l2p": world.pick("fl", [1 << 30, 16, 200]),
        "frag_p2l": world.pick("fp", [1 << 30, 16, 200]),
        "delay": world.choose("delay", 2),
        "peer_close": world.pick("peer_close", ["prompt", "late", "never", "fin", "rst", "first"]),
        "late": world.pick("late", [1, 8, 64]),
        "exchange": bool(world.choose("exchange", 2)),
        "hs_timeout": world.pick("hs_timeout", [60.0, 1.0, 0.25]),
        "sd_timeout": world.pick("sd_timeout", [30.0, 1.0, 0.25]),
        "hs_fault": world.pick("hs_fault", ["stall", "cut", "garbage", "none", "bad-hostname"]),
        "hs_cut": world.pick("hs_cut", [0, 1, 5, 100, 500]),
        "fail_at": fail_at,
    }
    if op == "aclose":
        scn["hs_timeout"] = 60.0  # the handshake is not the subject of this path
    _sweep(world, "tls-" + op, scn, _x_tls)


# ================================================================================================ path: stapled transports
def _x_stapled(world: World, scn: dict, cancel_at: int | None) -> int:
    ctx = Ctx(world, cancel_at)
    path = "stapled-" + scn["kind"]

    async def main() -> None:
        cls = MemTransport if scn["kind"] == "stream" else MemDatagramTransport
        send = cls(ctx.backend, "send", scn["s_turns"], scn["s_sleep"] / 64, scn["s_err"])
        recv = cls(ctx.backend, "recv", scn["r_turns"], scn["r_sleep"] / 64, scn["r_err"])
        st: Any = AsyncStapledStreamTransport(send, recv) if scn["kind"] == "stream" else AsyncStapledDatagramTransport(send, recv)  # type: ignore[arg-type,type-var]
        await ctx.close_under_sweep(st.aclose)
        await ctx.settle()
        if ctx.outcome == "not-started":
            return
        for half in (send, recv):
            m = half if isinstance(half, MemTransport) else half._m
            if m.close_calls == 0:
                raise _fail(path, "half-not-closed", f"aclose() ended with {ctx.outcome} but the {m.name} half was never closed", scn, cancel_at, site=m.name)
            if m.close_error != "before" and not m.closed:
                raise _fail(path, "half-not-closed", f"aclose() ended with {ctx.outcome} but the {m.name} half is not closed (closing={m.closing})", scn, cancel_at, site=m.name)
        if not await ctx.second_close_is_prompt(st.aclose):
            raise _fail(path, "second-close-slow", "second aclose() did not return promptly", scn, cancel_at)

    _run(ctx, main, path, scn)
    return ctx.J


def _h_stapled(world: World) -> None:
    scn = {
        "kind": world.pick("kind", ["stream", "dgram"]),
        "s_turns": world.choose("s_turns", 4),
        "s_sleep": world.pick("s_sleep", [0, 1, 8]),
        "s_err": world.pick("s_err", [None, "before", "after"]),
        "r_turns": world.choose("r_turns", 4),
        "r_sleep": world.pick("r_sleep", [0, 1, 8]),
        "r_err": world.pick("r_err", [None, "before", "after"]),
    }
    if scn["s_err"] or scn["r_err"]:
        world.fault("transport_raises")
    _sweep(world, "stapled-" + scn["kind"], scn, _x_stapled)


def evidence_extra(merged: dict) -> dict:
    return {"sweep_points_executed": merged["counters"].get("sweep_points", 0), "explanation": "evaluations counts base scenarios; sweep_points_executed counts (scenario, cancellation point) executions"}


HARNESSES = [
    Harness("adapter-endpoint", _h_adapter, weight=2, wall_limit=120.0),
    Harness("client", _h_client, weight=3, wall_limit=120.0),
    Harness("udp-client", _h_udp_client, weight=1, wall_limit=120.0),
    Harness("server-client", _h_server_client, weight=2, wall_limit=120.0),
    Harness("server-teardown", _h_server_teardown, weight=2, wall_limit=120.0),
    Harness("tls", _h_tls, weight=4, wall_limit=180.0),
    Harness("stapled", _h_stapled, weight=2, wall_limit=180.0),
]
