"""C01 — stream round trip under any chunking (DESIGN §4 C01), tier T1: the two consumers driven directly.

The harness body (`run_roundtrip`) is written against a pluggable *receive path*: a `Path` names the kind of protocol
it needs ("stream" -> StreamProtocol, "buffered" -> BufferedStreamProtocol) and builds a driver from (protocol, world).
A driver is any object with `feed(chunk: bytes)`, `out` (list of outcome tuples, vsim.chunk vocabulary), `pending()`
(number of bytes still held by the receiving side) and optionally `finish()` (one more `next(None)`-style poll; anything
it produces is appended to `out`).  Tier T2 will register Paths whose driver pushes the same chunks through SimNet
into the four real endpoint receive loops; nothing else in this module needs to change (`make_harnesses(paths)`).
"""
from __future__ import annotations

import dataclasses
from typing import Any, Callable

from vsim.chunk import CopyDriver, FillDriver, _classify, cuts_to_chunks, gen_cuts
from vsim.runner import Harness
from vsim.world import Violation, World

from . import matrix as M

PROPERTY = "C01"
LEVEL = "exploration"
RULE = (
    "for a serializer-matrix entry (116 configurations in 13 families): 1-8 valid packets (domains: " + M.domains() + "), bytes produced by the real "
    "StreamDataProducer.generate; chunking families {whole, byte-by-byte, 1 cut, 2 cuts, fixed size, k random cuts, structural cuts "
    "(packet boundary +-5, inside separators, headers, inside multi-byte characters, after escape bytes/quotes, inside struct fields, "
    "inside compressed blocks and at their end markers)}; both receive paths (copy; fill with size hints {1,2,3,5,8,16,64,1024,16384} and "
    "full or per-read chosen fill sizes); 1 run in 48 uses a 'large' stream (one or two packets of 40-200 KiB, <= 64 chunks); "
    "oracle = the list that was sent. A run is non-trivial when the stream was fragmented (fault kind 'frag') and >= 1 packet was returned."
)
COMPONENTS_REAL = [
    "easynetwork.serializers.* (line, json, struct, pickle, wrapper.base64, wrapper.compressor, composite, base_stream, tools)",
    "easynetwork.protocol (StreamProtocol, BufferedStreamProtocol)",
    "easynetwork.converter",
    "easynetwork.lowlevel._stream (StreamDataProducer, StreamDataConsumer, BufferedStreamDataConsumer)",
]
COMPONENTS_STUB = ["the network: replaced by the list of cuts of the produced byte stream (tier T1; no stub code at all)"]
ASSUMPTIONS = [
    "packets are drawn from each serializer's documented domain (props/matrix.py states it per entry); values outside it are not claimed",
    "StringLineSerializer(keep_end=True, encoding='utf-16-le') is excluded: the kept separator is one byte, so no line can decode",
    "file-based entries keep the whole stream <= limit (several frames in one read > limit is C07's finding D8, not generated here)",
    "CBOR/MessagePack serializers are not installed; FileBasedPacketSerializer is exercised through a pickle-backed subclass",
]
BUDGET = {"quick": 40, "thorough": 480}

HINTS = [1024, 1, 2, 3, 5, 8, 16, 64, 16384]
HINTS_LARGE = [16384, 1024, 65536]
LARGE_ONE_IN = 48
MAX_CHUNKS_LARGE = 64


# ------------------------------------------------------------------------------------------------ receive paths
@dataclasses.dataclass(frozen=True)
class Path:
    name: str
    needs: str  # "stream" | "buffered"
    make: Callable[[Any, World, bool], Any]  # (protocol, world, large) -> driver


def _make_copy(protocol: Any, world: World, large: bool) -> Any:
    return CopyDriver(protocol, world)


def _make_fill(protocol: Any, world: World, large: bool) -> Any:
    hint = world.pick("hint", HINTS_LARGE if large else HINTS)
    mode = world.choose("fill_mode", 2)
    world.notes.update(size_hint=hint, fill_mode=mode)
    return FillDriver(protocol, hint, world, fill_mode=mode)


class LazyCopyDriver(CopyDriver):
    """Same consumer, other legal calling pattern: one `next(chunk)` per read and no `next(None)` polling in between, so
    that a remainder is still in the consumer's own buffer when the next chunk arrives (the `buffer + chunk` branch of
    StreamDataConsumer.next, which the poll-first pattern of the endpoints never reaches).  Everything is polled at the end."""

    path = "copylazy"

    def feed(self, chunk: bytes) -> None:
        self.fed += len(chunk)
        if self.world is not None:
            self.world.log("feed", len(chunk))
        try:
            pkt = self.consumer.next(chunk)
        except StopIteration:
            return
        except BaseException as exc:  # noqa: BLE001
            self._emit(_classify(exc))
        else:
            self._emit(("pkt", pkt))


def _make_copylazy(protocol: Any, world: World, large: bool) -> Any:
    return LazyCopyDriver(protocol, world)


PATHS = {
    "copy": Path("copy", "stream", _make_copy),
    "fill": Path("fill", "buffered", _make_fill),
    "copylazy": Path("copylazy", "stream", _make_copylazy),
}


# ------------------------------------------------------------------------------------------------ chunking
def bounded_cuts(world: World, n: int, structural: Any, max_chunks: int | None) -> list[int]:
    cuts = gen_cuts(world, n, structural)
    if max_chunks is not None and len(cuts) >= max_chunks:
        cuts = sorted(set(c for c in cuts if 0 < c < n))
        step = len(cuts) / (max_chunks - 1)
        cuts = [cuts[int(i * step)] for i in range(max_chunks - 1)]
    return cuts


def _short(v: Any, n: int = 160) -> str:
    try:
        r = repr(v)
    except RecursionError:  # pragma: no cover
        r = "<deep>"
    return r if len(r) <= n else r[: n - 12] + f"...(+{len(r) - n + 12})"


# ------------------------------------------------------------------------------------------------ the harness body
def run_roundtrip(world: World, family: str, path: Path) -> None:
    large = world.choose("large", LARGE_ONE_IN) == LARGE_ONE_IN - 1
    entries = M.select(family, needs=path.needs, roundtrip=True, large=large)
    if not entries:
        large = False
        entries = M.select(family, needs=path.needs, roundtrip=True, large=False)
    entry = entries[world.choose("entry", len(entries))]
    if entry.large == "only":
        npk = 1 + world.choose("npackets", 2)
    elif large:
        npk = 1 + world.choose("npackets", 3)
    else:
        npk = 1 + world.choose("npackets", 8)
    limit = M.BIG_LIMIT if (large and entry.has_limit) else None

    packets = entry.gen_packets(world, npk, "stream", large)
    stream, bounds = M.produce(entry.protocol(path.needs, limit), packets)  # sender side: its own fresh protocol object
    expected = [entry.expect(p, "stream") for p in packets]
    big = len(stream) > 8192

    structural = M.LazyCuts(lambda: M.structural_cuts(stream, bounds, entry.sep, entry.hints))
    cuts = bounded_cuts(world, len(stream), structural, MAX_CHUNKS_LARGE if big else None)
    chunks = cuts_to_chunks(stream, cuts)

    world.notes.update(entry=entry.name, path=path.name, npackets=npk, stream_len=len(stream), nchunks=len(chunks), large=bool(big), chunks=[len(c) for c in chunks][:48])
    drv = path.make(entry.protocol(path.needs, limit), world, big)
    if big:
        world.probe("large_stream")

    site = f"C01/{family}/{path.name}"

    def ctx() -> str:
        return (
            f"entry={entry.name} path={path.name} notes={ {k: world.notes[k] for k in ('size_hint', 'fill_mode') if k in world.notes} } "
            f"packets={_short(packets, 400)} stream({len(stream)})={_short(stream, 300)} bounds={bounds} chunks={[len(c) for c in chunks][:64]}"
        )

    for c in chunks:
        drv.feed(c)
        if drv.out and drv.out[-1][0] != "pkt":
            break
    finish = getattr(drv, "finish", None)
    n_before_finish = len(drv.out)
    if not (drv.out and drv.out[-1][0] == "crash"):
        if finish is not None:
            finish()
        else:
            drv.drain(None)  # next(None) must raise StopIteration right away: nothing may be appended to `out`

    out = drv.out
    world.log("c01", path.name, entry.name, len(chunks), tuple(o[0] for o in out))
    world.progress(sum(1 for o in out if o[0] == "pkt"))

    # clause 1: no error is reported anywhere
    for i, o in enumerate(out):
        if o[0] == "crash":
            raise Violation("no-error", f"exception escaped after {i} packets: {o}\n{ctx()}", key=f"{site}/no-error/crash/{o[2] or o[1]}")
        if o[0] == "err":
            raise Violation("no-error", f"parse error {o[1]} reported as outcome #{i} of a valid stream\n{ctx()}", key=f"{site}/no-error/{o[1]}")
    # clause 2: exactly the packets sent, in order, exactly once
    got = [o[1] for o in out]
    if len(got) != len(expected) or not all(entry.eq(g, e) for g, e in zip(got, expected)):
        idx = next((i for i, (g, e) in enumerate(zip(got, expected)) if not entry.eq(g, e)), min(len(got), len(expected)))
        what = "extra" if len(got) > len(expected) else "missing" if len(got) < len(expected) and idx == len(got) else "different"
        if n_before_finish < len(out) and idx >= n_before_finish:
            what = "late"  # only came out of the extra next(None)
        raise Violation(
            "packets-equal",
            f"returned {len(got)} packets, sent {len(expected)}; first difference at #{idx}: got {_short(got[idx]) if idx < len(got) else '<nothing>'} "
            f"expected {_short(expected[idx]) if idx < len(expected) else '<nothing>'}\n{ctx()}",
            key=f"{site}/packets-equal/{what}",
        )
    # clause 3: nothing is left over
    pend = drv.pending()
    if pend != 0:
        held = getattr(drv, "held_bytes", lambda: b"?")()
        raise Violation("no-leftover", f"{pend} bytes still held after the last packet: {_short(held)}\n{ctx()}", key=f"{site}/no-leftover")


# ------------------------------------------------------------------------------------------------ harness table
_FAMILY_WEIGHT = {"line": 3, "json": 3, "base64": 2, "zlib": 2, "bz2": 1, "struct": 1, "namedtuple": 1, "autosep": 2, "fixed": 1, "filebased": 2, "stapled": 2, "converter": 1}


def make_harnesses(paths: dict[str, Path], suffix: str = "", tiers: tuple = ("quick", "thorough"), wall_limit: float = 30.0) -> list[Harness]:
    out = []
    for family in M.FAMILIES:
        for path in paths.values():
            if not M.select(family, needs=path.needs, roundtrip=True):
                continue
            out.append(
                Harness(
                    f"{family}-{path.name}{suffix}",
                    (lambda w, f=family, p=path: run_roundtrip(w, f, p)),
                    weight=1 if path.name == "copylazy" else _FAMILY_WEIGHT.get(family, 1),
                    tiers=tiers,
                    wall_limit=wall_limit,
                )
            )
    return out


HARNESSES = make_harnesses(PATHS)
