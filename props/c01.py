"""C01 — stream round trip under any chunking (DESIGN §4 C01), tier T1: the two consumers driven directly.

The harness body (`run_roundtrip`) is written against a pluggable *receive path*: a `Path` names the kind of protocol
it needs ("stream" -> StreamProtocol, "buffered" -> BufferedStreamProtocol) and builds a driver from (protocol, world).
A driver is any object with `feed(chunk: bytes)`, `out` (list of outcome tuples, vsim.chunk vocabulary), `pending()`
(number of bytes still held by the receiving side) and optionally `finish()` (one more `next(None)`-style poll; anything
it produces is appended to `out`).  Tier T2 will register Paths whose driver pushes the same chunks through SimNet
into the four real endpoint receive loops; nothing else in this module needs to change (`make_harnesses(paths)`).

Shared-protocol mode (`run_shared`, harnesses `shared-<path>`): several drivers of one path are built from the SAME protocol
object, each gets its own stream, and their reads are interleaved; a `Path.run_group` function runs the group (T1: feed in
schedule order; T2: one link and one real endpoint per consumer).  `judge` is the per-consumer oracle of both modes.
"""
from __future__ import annotations

import dataclasses
from typing import Any, Callable

import asyncio
import math

from easynetwork.lowlevel._stream import StreamDataConsumer
from easynetwork.lowlevel.api_async.endpoints.stream import AsyncStreamEndpoint
from easynetwork.lowlevel.api_sync.endpoints.stream import StreamEndpoint
from easynetwork.lowlevel.api_sync.transports.socket import SocketStreamTransport

from vsim.backend import SimAsyncIOBackend, sim_sockets
from vsim.chunk import CopyDriver, FillDriver, _classify, cuts_to_chunks, gen_cuts
from vsim.harness import Peer, sync_engine
from vsim.loop import run_async
from vsim.runner import Harness
from vsim.sock import Delivery, SimNet, patched_clock
from vsim.world import Deadlock, HarnessError, Violation, World

from . import matrix as M

PROPERTY = "C01"
LEVEL = "exploration"
RULE = (
    "for a serializer-matrix entry (122 configurations in 13 families): 1-8 valid packets (domains: " + M.domains() + "), bytes produced by the real "
    "StreamDataProducer.generate; chunking families {whole, byte-by-byte, 1 cut, 2 cuts, fixed size, k random cuts, structural cuts "
    "(packet boundary +-5, inside separators, headers, inside multi-byte characters, after escape bytes/quotes, inside struct fields, "
    "inside compressed blocks and at their end markers)}; both receive paths (copy; fill with size hints {1,2,3,5,8,16,64,1024,16384} and "
    "full or per-read chosen fill sizes); 1 run in 48 uses a 'large' stream (one or two packets of 40-200 KiB, <= 64 chunks); 1 run in 4 of the "
    "entries with a limit configures it tightly (largest frame + safety margin of C02, file-based: largest packet + 0..3) so that the whole "
    "stream, and single reads, exceed the limit while every packet is within it; tier T2 pushes the same chunks through a SimSocket link "
    "into the real receive loops (blocking StreamEndpoint over SocketStreamTransport: recv_packet(timeout=0) after every chunk, or "
    "recv_packet(timeout=None) against a scripted delivery until EOF; AsyncStreamEndpoint over the asyncio socket adapter on SimEventLoop), "
    "max_recv_size from the hint set; oracle = the list that was sent. Shared-protocol mode (harnesses shared-<path>, every receive path, "
    "the family drawn inside): 2-3 consumers/endpoints built from ONE protocol object (one serializer, one converter, as all the "
    "connections of a server are), each with its own 1-5 packets, its own produced stream and its own chunking; the reads of the streams "
    "are interleaved in a drawn order (fault kind 'interleave': another consumer reads while one has not yet got its whole stream; probe "
    "'interleave_mid_packet'); T2: one SimSocket link per endpoint, sync endpoints polled from one thread, async endpoints one receiver "
    "task each on one loop; every consumer must return exactly the list sent on ITS stream (same three clauses, keys "
    "C01/<family>/<path>-shared/...). A run is non-trivial when a stream was fragmented (fault kind 'frag') or the reads of two "
    "consumers were interleaved, and >= 1 packet was returned."
)
COMPONENTS_REAL = [
    "easynetwork.serializers.* (line, json, struct, pickle, wrapper.base64, wrapper.compressor, composite, base_stream, tools)",
    "easynetwork.protocol (StreamProtocol, BufferedStreamProtocol)",
    "easynetwork.converter",
    "easynetwork.lowlevel._stream (StreamDataProducer, StreamDataConsumer, BufferedStreamDataConsumer)",
    "T2: easynetwork.lowlevel.api_sync.endpoints.stream.StreamEndpoint + transports.socket.SocketStreamTransport + base_selector retry loop",
    "T2: easynetwork.lowlevel.api_async.endpoints.stream.AsyncStreamEndpoint + asyncio backend socket adapter (StreamReaderBufferedProtocol) + CPython selector transport",
]
COMPONENTS_STUB = [
    "T1: the network is the list of cuts of the produced byte stream (no stub code at all)",
    "T2: SimSocket / SimNet link with manual or scripted delivery, SimSelector, virtual clock, SimEventLoop",
]
ASSUMPTIONS = [
    "packets are drawn from each serializer's documented domain (props/matrix.py states it per entry); values outside it are not claimed",
    "StringLineSerializer(keep_end=True, encoding='utf-16-le') is excluded: the kept separator is one byte, so no line can decode",
    "a configured limit is always >= every single frame plus the 'safely within the limit' margin of C02 (separator length + 2; file-based: 0); "
    "the stream as a whole and single reads may exceed it (this is what re-finds D8 when its fix is reverted)",
    "leftover bytes that the copy consumer has already handed to the suspended parser are not observable (T1 and T2 alike)",
    "shared-protocol mode: the consumers of one protocol object are driven from one thread / one event loop (reads interleave at "
    "read granularity, never inside a serializer call); all of them use the same serializer options, limit and debug flag",
    "CBOR/MessagePack serializers are not installed; FileBasedPacketSerializer is exercised through a pickle-backed subclass",
]
BUDGET = {"quick": 40, "thorough": 480}

HINTS = [1024, 1, 2, 3, 5, 8, 16, 64, 16384]
HINTS_MEDIUM = [1024, 16, 64, 16384]
HINTS_LARGE = [16384, 1024, 65536]
LARGE_ONE_IN = 48
MAX_CHUNKS_LARGE = 64


# ------------------------------------------------------------------------------------------------ receive paths
@dataclasses.dataclass(frozen=True)
class Path:
    name: str
    needs: str  # "stream" | "buffered"
    make: Callable[[Any, World, bool], Any]  # (protocol, world, large) -> driver
    weight: int | None = None  # None: the family weight
    # shared-protocol mode (run_shared): (world, drivers, schedule [(consumer index, chunk)]) -> index of the consumer that
    # reported a non-packet outcome (feeding stops there) or None.  None here = `run_group_t1`.
    run_group: Callable[[World, list, list], int | None] | None = None


def _make_copy(protocol: Any, world: World, large: bool) -> Any:
    return CopyDriver(protocol, world)


def _make_fill(protocol: Any, world: World, large: bool) -> Any:
    hint = world.pick("hint", HINTS_LARGE if large else HINTS)
    mode = world.choose("fill_mode", 2)
    world.notes.update(size_hint=hint, fill_mode=mode)
    return FillDriver(protocol, hint, world, fill_mode=mode)


class LazyCopyDriver(CopyDriver):
    """Same consumer, other legal calling pattern: one `next(chunk)` per read and no `next(None)` polling in between, so
    that a remainder is still in the consumer's own buffer when the next chunk arrives (the `buffer + chunk` branch of
    StreamDataConsumer.next, which the poll-first pattern of the endpoints never reaches).  Everything is polled at the end."""

    path = "copylazy"

    def feed(self, chunk: bytes) -> None:
        self.fed += len(chunk)
        if self.world is not None:
            self.world.log("feed", len(chunk))
        try:
            pkt = self.consumer.next(chunk)
        except StopIteration:
            return
        except BaseException as exc:  # noqa: BLE001
            self._emit(_classify(exc))
        else:
            self._emit(("pkt", pkt))


def _make_copylazy(protocol: Any, world: World, large: bool) -> Any:
    return LazyCopyDriver(protocol, world)


PATHS = {
    "copy": Path("copy", "stream", _make_copy),
    "fill": Path("fill", "buffered", _make_fill),
    "copylazy": Path("copylazy", "stream", _make_copylazy, weight=3),
}


# ------------------------------------------------------------------------------------------------ tier T2: the real receive loops
class _T2Driver:
    """Deferred driver: `feed` only records the chunk; `finish` builds a SimNet link and a real endpoint, makes the chunks
    visible on the socket one unit at a time, and collects what `recv_packet` returns (vsim.chunk outcome vocabulary).
    `pending()` = bytes still unread in the socket + bytes held by the endpoint's consumer after the last packet."""

    deferred = True
    receiver_attr = ""
    # C01: any exception ends the run (every error is a violation).  C02/C07 reuse these drivers with
    # stop_on_parse_error = False: a StreamProtocolParseError is then an ordinary outcome and receiving goes on.
    stop_on_parse_error = True

    def __init__(self, protocol: Any, world: World, large: bool):
        self.protocol = protocol
        self.world = world
        self.chunks: list[bytes] = []
        self.out: list[tuple] = []
        self.mrs = 0  # drawn in finish(), when the stream length is known
        self.n_before_final: int | None = None
        self._held = b""

    def feed(self, chunk: bytes) -> None:
        self.chunks.append(chunk)

    def pending(self) -> int:
        return len(self._held)

    def held_bytes(self) -> bytes:
        return self._held

    def _draw_mrs(self) -> None:
        total = sum(len(c) for c in self.chunks)
        # tiny read sizes only for short streams: one recv()/recv_into() call costs microseconds of simulator work
        hints = HINTS if total <= 2048 else HINTS_MEDIUM if total <= 8192 else HINTS_LARGE
        self.mrs = self.world.pick("max_recv_size", hints)
        self.world.notes.update(max_recv_size=self.mrs)

    def _emit(self, o: tuple) -> None:
        self.out.append(o)
        self.world.log(o[0], o[1] if o[0] != "pkt" else "")

    def _emit_exc(self, exc: BaseException) -> None:
        if isinstance(exc, (Violation, HarnessError)):
            raise exc
        self._emit(_classify(exc))

    def _go_on(self) -> bool:
        """after _emit_exc: keep receiving? (only for parse errors, only when the reusing property asked for it)"""
        return not self.stop_on_parse_error and self.out[-1][0] == "err"

    def _measure(self, endpoint: Any, lib: Any) -> None:
        try:
            consumer = getattr(endpoint, self.receiver_attr).consumer
        except AttributeError as exc:  # the private layout changed: the harness must be updated, not silently weakened
            raise HarnessError(f"cannot reach the endpoint's consumer: {exc}") from None
        if isinstance(consumer, StreamDataConsumer):
            held = bytes(consumer.get_buffer())
        else:
            try:
                consumer.get_write_buffer()  # get_value() is only meaningful once a consumer generator is active
            except Exception:  # noqa: BLE001
                pass
            held = consumer.get_value() or b""
        self._held = held + bytes(lib.rx_pipe.rx)


class SyncEndpointDriver(_T2Driver):
    """Blocking StreamEndpoint(SocketStreamTransport(SimSocket)) under the sync engine.

    t2_mode 0 (poll):     after every chunk became visible, recv_packet(timeout=0) until TimeoutError; one more poll at the end.
    t2_mode 1 (blocking): the whole stream is written at t=0 and delivered by the link as the scripted fragment sizes with
                          per-fragment delays, then FIN; recv_packet(timeout=None) until ConnectionAbortedError (end-of-stream)."""

    receiver_attr = "_StreamEndpoint__receiver"

    def finish(self) -> None:
        world = self.world
        self._draw_mrs()
        mode = world.choose("t2_mode", 2)
        retry = world.pick("retry_interval", [math.inf, 1.0, 1 / 64])
        world.notes.update(t2_mode=["poll", "blocking"][mode], retry_interval=str(retry))
        net = SimNet(world)
        if mode == 0:
            delivery = Delivery(frag=5)
        else:
            delivery = Delivery(frag=4, script=[len(c) for c in self.chunks], delays=world.pick("delays", [(1,), (0,), (0, 1, 3)]))
        lib, ps = net.socketpair(delivery_ba=delivery)
        peer = Peer(world, ps)
        cap = sum(len(c) for c in self.chunks) + 8
        with sync_engine(world) as make_selector:
            endpoint = StreamEndpoint(SocketStreamTransport(lib, retry, selector_factory=make_selector), self.protocol, self.mrs)
            try:
                ok = True
                if mode == 0:
                    for c in self.chunks:
                        peer.write(c)
                        ps.tx_pipe.deliver(len(c))
                        ok = self._poll(endpoint, cap)
                        if not ok:
                            break
                    ok = self._poll_tail(endpoint, lib, cap, ok)
                else:
                    peer.write(b"".join(self.chunks))
                    peer.fin()
                    while len(self.out) <= cap:
                        try:
                            pkt = endpoint.recv_packet(timeout=None)
                        except ConnectionAbortedError:
                            break
                        except Deadlock as exc:  # blocked for ever although everything (and FIN) was delivered
                            self._emit(("crash", "Deadlock", None, str(exc)[:200]))
                            ok = False
                            break
                        except BaseException as exc:  # noqa: BLE001
                            self._emit_exc(exc)
                            if self._go_on():
                                continue
                            ok = False
                            break
                        else:
                            self._emit(("pkt", pkt))
                    self.n_before_final = len(self.out)
                if ok:
                    self._measure(endpoint, lib)
            finally:
                endpoint.close()

    def _poll_tail(self, endpoint: Any, lib: Any, cap: int, ok: bool) -> bool:
        # A zero timeout is a single poll: nothing says one call must drain the socket (DESIGN C11), so keep
        # polling while the socket still holds unread bytes; then one more poll, which must not produce anything.
        while ok and lib.rx_pipe.rx and len(self.out) <= cap:
            before = (len(lib.rx_pipe.rx), len(self.out))
            ok = self._poll(endpoint, cap)
            if (len(lib.rx_pipe.rx), len(self.out)) == before:
                break  # a poll that neither reads nor returns anything: the leftover is reported by pending()
        if ok:
            self.n_before_final = len(self.out)
            ok = self._poll(endpoint, cap)  # nothing more may come out
        return ok

    def _poll(self, endpoint: Any, cap: int) -> bool:
        while len(self.out) <= cap:
            try:
                pkt = endpoint.recv_packet(timeout=0)
            except TimeoutError:
                return True
            except BaseException as exc:  # noqa: BLE001
                self._emit_exc(exc)
                if self._go_on():
                    continue
                return False
            else:
                self._emit(("pkt", pkt))
        self._emit(("crash", "Spin", None, "recv_packet(timeout=0) keeps returning packets"))
        return False


class AsyncEndpointDriver(_T2Driver):
    """AsyncStreamEndpoint over backend.wrap_stream_socket(SimSocket) on SimEventLoop.  A receiver task loops on
    recv_packet(); the feeder makes one chunk visible, then lets `gap` virtual time pass (the loop only lets time pass when
    the receiver is parked again, i.e. "until it would block"; gap 0 = a single loop turn, chunks may coalesce), then FIN."""

    receiver_attr = "_AsyncStreamEndpoint__receiver"

    def finish(self) -> None:
        world = self.world
        self._draw_mrs()
        gap = world.pick("gap", [1, 0, 3]) / 64.0
        # data that arrives while nobody is waiting in recv()/recv_into() goes through the adapter's internal buffer:
        head_start = world.choose("head_start", 3)  # chunks made visible before the first recv_packet(): none / the first / all
        slow = world.choose("slow_receiver", 3) == 2  # the application takes 2/64 s between two recv_packet() calls
        world.notes.update(gap=gap, head_start=head_start, slow_receiver=slow)
        net = SimNet(world)
        backend = SimAsyncIOBackend(net)
        world.FREE_ZERO_WAITS = 1 << 30  # type: ignore[misc]  # nothing here legitimately busy-loops: no virtual-CPU creep

        async def main() -> None:
            lib, ps = net.socketpair(delivery_ba=Delivery(frag=5))
            peer = Peer(world, ps)
            endpoint = AsyncStreamEndpoint(await backend.wrap_stream_socket(lib), self.protocol, self.mrs)
            cap = sum(len(c) for c in self.chunks) + 8

            def receiver() -> Any:
                return self._receive_loop(endpoint, cap, slow)

            rest = list(self.chunks)
            for c in rest[: {0: 0, 1: 1, 2: len(rest)}[head_start]]:
                peer.write(c)
                ps.tx_pipe.deliver(len(c))
                await asyncio.sleep(gap)
            del rest[: {0: 0, 1: 1, 2: len(rest)}[head_start]]
            task = asyncio.get_running_loop().create_task(receiver(), name="c01-receiver")
            try:
                for c in rest:
                    if task.done():
                        break
                    peer.write(c)
                    ps.tx_pipe.deliver(len(c))
                    await asyncio.sleep(gap)
                if not task.done():
                    await asyncio.sleep(1 / 64)
                    self.n_before_final = len(self.out)
                    peer.fin()
                    ps.tx_pipe.deliver_fin()
                try:
                    ok = await asyncio.wait_for(task, 64.0)
                except TimeoutError:
                    self._emit(("crash", "Deadlock", None, "the receiver task did not see end-of-stream within 64 virtual seconds after FIN"))
                    ok = False
                if ok:
                    self._measure(endpoint, lib)
            finally:
                if not task.done():
                    task.cancel()
                await endpoint.aclose()

        with sim_sockets(net), patched_clock(world):
            run_async(world, main)


    async def _receive_loop(self, endpoint: Any, cap: int, slow: bool) -> bool:
        while len(self.out) <= cap:
            try:
                pkt = await endpoint.recv_packet()
            except ConnectionAbortedError:
                return True
            except asyncio.CancelledError:
                raise
            except BaseException as exc:  # noqa: BLE001
                self._emit_exc(exc)
                if self._go_on():
                    continue
                return False
            else:
                self._emit(("pkt", pkt))
                if slow:
                    await asyncio.sleep(2 / 64)
        self._emit(("crash", "Spin", None, "recv_packet() keeps returning packets"))
        return False


def _t2(cls: Any) -> Callable[[Any, World, bool], Any]:
    return lambda protocol, world, large: cls(protocol, world, large)


T2_PATHS = {
    "t2sync-copy": Path("t2sync-copy", "stream", _t2(SyncEndpointDriver), weight=1),
    "t2sync-fill": Path("t2sync-fill", "buffered", _t2(SyncEndpointDriver), weight=1),
    "t2aio-copy": Path("t2aio-copy", "stream", _t2(AsyncEndpointDriver), weight=1),
    "t2aio-fill": Path("t2aio-fill", "buffered", _t2(AsyncEndpointDriver), weight=1),
}


# ------------------------------------------------------------------------------------------------ chunking
def bounded_cuts(world: World, n: int, structural: Any, max_chunks: int | None) -> list[int]:
    cuts = gen_cuts(world, n, structural)
    if max_chunks is not None and len(cuts) >= max_chunks:
        cuts = sorted(set(c for c in cuts if 0 < c < n))
        step = len(cuts) / (max_chunks - 1)
        cuts = [cuts[int(i * step)] for i in range(max_chunks - 1)]
    return cuts


def tight_limit(entry: M.Entry, bounds: list[int]) -> int:
    """Smallest limit under which every frame of the stream is 'safely within the limit' (DESIGN C02/C07: frame <= limit -
    separator - 2 keeps both scanners strictly inside their accepting range; the file-based base class accepts a packet
    of exactly `limit` bytes; the raw JSON parser compares the document length with the limit: + 2 for the terminator)."""
    m = max(b - a for a, b in zip([0] + list(bounds[:-1]), bounds))
    if entry.family == "filebased":
        return max(m, 1)
    return m + (len(entry.sep) if entry.sep else 0) + 2


def _short(v: Any, n: int = 160) -> str:
    try:
        r = repr(bytes(v)) if isinstance(v, memoryview) else repr(v)
    except Exception:  # noqa: BLE001  (deep structure, released view)
        r = "<unprintable>"
    return r if len(r) <= n else r[: n - 12] + f"...(+{len(r) - n + 12})"


# ------------------------------------------------------------------------------------------------ the harness body
def run_roundtrip(world: World, family: str, path: Path) -> None:
    large = world.choose("large", LARGE_ONE_IN) == LARGE_ONE_IN - 1
    entries = M.select(family, needs=path.needs, roundtrip=True, large=large)
    if not entries:
        large = False
        entries = M.select(family, needs=path.needs, roundtrip=True, large=False)
    entry = entries[world.choose("entry", len(entries))]
    if entry.large == "only":
        npk = 1 + world.choose("npackets", 2)
    elif large:
        npk = 1 + world.choose("npackets", 3)
    else:
        npk = 1 + world.choose("npackets", 8)
    limit = M.BIG_LIMIT if (large and entry.has_limit) else None

    packets = entry.gen_packets(world, npk, "stream", large)
    stream, bounds = M.produce(entry.protocol(path.needs, limit), packets)  # sender side: its own fresh protocol object
    expected = [entry.expect(p, "stream") for p in packets]
    big = len(stream) > 8192
    if entry.has_limit and not large and world.choose("tight_limit", 4) == 3:
        # every frame is safely within the limit, the stream as a whole (and most reads) is not
        limit = tight_limit(entry, bounds) + world.choose("limit_slack", 4)
        world.probe("tight_limit")
        if len(stream) > limit:
            world.probe("stream_exceeds_limit")

    structural = M.LazyCuts(lambda: M.structural_cuts(stream, bounds, entry.sep, entry.hints))
    cuts = bounded_cuts(world, len(stream), structural, MAX_CHUNKS_LARGE if big else None)
    chunks = cuts_to_chunks(stream, cuts)

    world.notes.update(entry=entry.name, path=path.name, limit=limit, npackets=npk, stream_len=len(stream), nchunks=len(chunks), large=bool(big), chunks=[len(c) for c in chunks][:48])
    debug = bool(world.choose("debug", 2))  # serializers' debug option on the receiving side: no observable difference allowed
    world.notes.update(debug=debug)
    drv = path.make(entry.protocol(path.needs, limit, debug=debug), world, big)
    if big:
        world.probe("large_stream")

    site = f"C01/{family}/{path.name}"

    def ctx() -> str:
        return (
            f"entry={entry.name} path={path.name} limit={limit} debug={world.notes.get('debug')} notes={ {k: world.notes[k] for k in ('size_hint', 'fill_mode', 'max_recv_size', 't2_mode', 'gap', 'head_start', 'slow_receiver', 'retry_interval') if k in world.notes} } "
            f"packets={_short(packets, 400)} stream({len(stream)})={_short(stream, 300)} bounds={bounds} chunks={[len(c) for c in chunks][:64]}"
        )

    for c in chunks:
        drv.feed(c)
        if drv.out and drv.out[-1][0] != "pkt":
            break
    finish = getattr(drv, "finish", None)
    n_before_finish = len(drv.out)
    if not (drv.out and drv.out[-1][0] == "crash"):
        if finish is not None:
            finish()
        else:
            drv.drain(None)  # next(None) must raise StopIteration right away: nothing may be appended to `out`

    n_before_finish = getattr(drv, "n_before_final", None) or n_before_finish  # deferred (T2) drivers run everything in finish()
    world.log("c01", path.name, entry.name, len(chunks), tuple(o[0] for o in drv.out))
    world.progress(sum(1 for o in drv.out if o[0] == "pkt"))
    judge(entry, site, drv, expected, n_before_finish, ctx)


def judge(entry: M.Entry, site: str, drv: Any, expected: list, n_before_finish: int, ctx: Callable[[], str]) -> None:
    """The three clauses of C01 for ONE consumer: `drv.out` against the list that was sent on its stream."""
    out = drv.out
    # clause 1: no error is reported anywhere
    for i, o in enumerate(out):
        if o[0] == "crash":
            raise Violation("no-error", f"exception escaped after {i} packets: {o}\n{ctx()}", key=f"{site}/no-error/crash/{o[2] or o[1]}")
        if o[0] == "err":
            raise Violation("no-error", f"parse error {o[1]} reported as outcome #{i} of a valid stream\n{ctx()}", key=f"{site}/no-error/{o[1]}")
    # clause 2: exactly the packets sent, in order, exactly once.  The comparison is made HERE, after the whole stream was
    # received, on the very objects the receiving side returned (kept in `out`), value- and type-strict: a packet that aliases
    # the reused receive buffer (a memoryview where bytes were sent, or content overwritten by a later read) fails it.
    def same(g: Any, e: Any) -> bool:
        try:
            return bool(entry.eq(g, e))
        except Exception:  # noqa: BLE001  e.g. a released memoryview
            return False

    got = [o[1] for o in out]
    if len(got) != len(expected) or not all(same(g, e) for g, e in zip(got, expected)):
        idx = next((i for i, (g, e) in enumerate(zip(got, expected)) if not same(g, e)), min(len(got), len(expected)))
        what = "extra" if len(got) > len(expected) else "missing" if len(got) < len(expected) and idx == len(got) else "different"
        if n_before_finish < len(out) and idx >= n_before_finish:
            what = "late"  # only came out of the extra next(None)
        raise Violation(
            "packets-equal",
            f"returned {len(got)} packets, sent {len(expected)}; first difference (compared after the whole stream was received) at #{idx}: "
            f"got {(type(got[idx]).__name__ + ' ' + _short(got[idx])) if idx < len(got) else '<nothing>'} "
            f"expected {_short(expected[idx]) if idx < len(expected) else '<nothing>'}\n{ctx()}",
            key=f"{site}/packets-equal/{what}",
        )
    # clause 3: nothing is left over
    pend = drv.pending()
    if pend != 0:
        held = getattr(drv, "held_bytes", lambda: b"?")()
        raise Violation("no-leftover", f"{pend} bytes still held after the last packet: {_short(held)}\n{ctx()}", key=f"{site}/no-leftover")


# ------------------------------------------------------------------------------------------------ shared protocol object
# One protocol object (hence one serializer, one converter) is what all the connections of a server, or all the clients built
# from a module-level constant, use.  The statement quantifies over "protocols" and "serializers", not over "a protocol used
# by a single connection": every consumer built from the object receives its own stream and must return exactly its own
# packets, whatever the other consumers of the same object are doing between two of its reads.
SHARED_MAX_CONSUMERS = 3


def run_group_t1(world: World, drivers: list, schedule: list) -> int | None:
    """T1 drivers: feed in schedule order; afterwards one extra poll per consumer (as in run_roundtrip)."""
    for i, c in schedule:
        world.log("turn", i)
        d = drivers[i]
        d.feed(c)
        if d.out and d.out[-1][0] != "pkt":
            return i
    for i, d in enumerate(drivers):
        world.log("turn", i, "final")
        d.n_before_final = len(d.out)
        d.drain(None)
    return None


def run_group_t2sync(world: World, drivers: list, schedule: list) -> int | None:
    """k blocking StreamEndpoints (one SimSocket link each) built from the same protocol object, polled from one thread:
    the chunk of the schedule becomes visible on its link, then that endpoint is polled with recv_packet(timeout=0) until
    TimeoutError (SyncEndpointDriver 'poll' mode; the blocking mode cannot interleave two endpoints in one thread)."""
    retry = world.pick("retry_interval", [math.inf, 1.0, 1 / 64])
    world.notes.update(t2_mode="poll", retry_interval=str(retry))
    for i, d in enumerate(drivers):
        d.chunks = [c for j, c in schedule if j == i]
        d._draw_mrs()
    world.notes.update(max_recv_size=[d.mrs for d in drivers])
    net = SimNet(world)
    links = []
    with sync_engine(world) as make_selector:
        try:
            for d in drivers:
                lib, ps = net.socketpair(delivery_ba=Delivery(frag=5))
                endpoint = StreamEndpoint(SocketStreamTransport(lib, retry, selector_factory=make_selector), d.protocol, d.mrs)
                links.append((lib, ps, Peer(world, ps), endpoint, sum(len(c) for c in d.chunks) + 8))
            for i, c in schedule:
                world.log("turn", i)
                lib, ps, peer, endpoint, cap = links[i]
                peer.write(c)
                ps.tx_pipe.deliver(len(c))
                if not drivers[i]._poll(endpoint, cap):
                    return i
            for i, d in enumerate(drivers):
                world.log("turn", i, "final")
                lib, ps, peer, endpoint, cap = links[i]
                if not d._poll_tail(endpoint, lib, cap, True):
                    return i
                d._measure(endpoint, lib)
        finally:
            for link in links:
                link[3].close()
    return None


def run_group_t2aio(world: World, drivers: list, schedule: list) -> int | None:
    """k AsyncStreamEndpoints (one SimSocket link each) built from the same protocol object on one SimEventLoop, one
    receiver task each; the feeder makes the chunks visible in schedule order (AsyncEndpointDriver's gap / head start /
    slow receiver parameters), then FIN on every link."""
    gap = world.pick("gap", [1, 0, 3]) / 64.0
    head_start = world.choose("head_start", 3)  # schedule steps made visible before the receivers start: none / the first / all
    slow = world.choose("slow_receiver", 3) == 2
    world.notes.update(gap=gap, head_start=head_start, slow_receiver=slow)
    for i, d in enumerate(drivers):
        d.chunks = [c for j, c in schedule if j == i]
        d._draw_mrs()
    world.notes.update(max_recv_size=[d.mrs for d in drivers])
    net = SimNet(world)
    backend = SimAsyncIOBackend(net)
    world.FREE_ZERO_WAITS = 1 << 30  # type: ignore[misc]
    failed: list[int | None] = [None]

    async def main() -> None:
        links = []
        tasks: list[Any] = []
        try:
            for d in drivers:
                lib, ps = net.socketpair(delivery_ba=Delivery(frag=5))
                endpoint = AsyncStreamEndpoint(await backend.wrap_stream_socket(lib), d.protocol, d.mrs)
                links.append((lib, ps, Peer(world, ps), endpoint, sum(len(c) for c in d.chunks) + 8))

            async def show(i: int, c: bytes) -> None:
                world.log("turn", i)
                links[i][2].write(c)
                links[i][1].tx_pipe.deliver(len(c))
                await asyncio.sleep(gap)

            rest = list(schedule)
            nhead = {0: 0, 1: 1, 2: len(rest)}[head_start]
            for i, c in rest[:nhead]:
                await show(i, c)
            del rest[:nhead]
            loop = asyncio.get_running_loop()
            for i, d in enumerate(drivers):
                tasks.append(loop.create_task(d._receive_loop(links[i][3], links[i][4], slow), name=f"c01-receiver-{i}"))
            for i, c in rest:
                if any(t.done() for t in tasks):
                    break
                await show(i, c)
            early = [i for i, t in enumerate(tasks) if t.done()]
            if early:  # a receiver ended before any FIN: it reported a non-packet outcome (or raised: re-raised here)
                await tasks[early[0]]
                failed[0] = early[0]
                return
            await asyncio.sleep(1 / 64)
            for i, d in enumerate(drivers):
                d.n_before_final = len(d.out)
                links[i][2].fin()
                links[i][1].tx_pipe.deliver_fin()
            for i, d in enumerate(drivers):
                try:
                    ok = await asyncio.wait_for(tasks[i], 64.0)
                except TimeoutError:
                    d._emit(("crash", "Deadlock", None, "the receiver task did not see end-of-stream within 64 virtual seconds after FIN"))
                    ok = False
                if not ok:
                    failed[0] = i
                    return
            for i, d in enumerate(drivers):
                d._measure(links[i][3], links[i][0])
        finally:
            for t in tasks:
                if not t.done():
                    t.cancel()
            for link in links:
                await link[3].aclose()

    with sim_sockets(net), patched_clock(world):
        run_async(world, main)
    return failed[0]


def _pick_family(world: World, needs: str) -> str:
    fams = [f for f in M.FAMILIES if M.select(f, needs=needs, roundtrip=True, large=False)]
    weights = [_FAMILY_WEIGHT.get(f, 1) for f in fams]
    r = world.choose("family", sum(weights))
    for f, w in zip(fams, weights):
        if r < w:
            return f
        r -= w
    raise AssertionError


def run_shared(world: World, path: Path) -> None:
    """k = 2..3 consumers (drivers of `path`) built from ONE protocol object; every consumer has its own packets, its own
    produced stream and its own chunking; the reads of the k streams are interleaved in a drawn order.  Oracle: the three
    clauses of C01 for every consumer, against the list sent on ITS stream."""
    family = _pick_family(world, path.needs)
    entries = M.select(family, needs=path.needs, roundtrip=True, large=False)
    entry = entries[world.choose("entry", len(entries))]
    k = 2 + world.choose("consumers", SHARED_MAX_CONSUMERS - 1)

    sent = []  # (packets, stream, bounds, expected)
    for _ in range(k):
        packets = entry.gen_packets(world, 1 + world.choose("npackets", 5), "stream", False)
        stream, bounds = M.produce(entry.protocol(path.needs, None), packets)  # sender side: its own fresh protocol object
        sent.append((packets, stream, bounds, [entry.expect(p, "stream") for p in packets]))
    limit = None
    if entry.has_limit and world.choose("tight_limit", 4) == 3:
        limit = max(tight_limit(entry, b) for _, _, b, _ in sent) + world.choose("limit_slack", 4)
        world.probe("tight_limit")

    all_chunks = []
    for _, stream, bounds, _ in sent:
        structural = M.LazyCuts(lambda stream=stream, bounds=bounds: M.structural_cuts(stream, bounds, entry.sep, entry.hints))
        all_chunks.append(cuts_to_chunks(stream, bounded_cuts(world, len(stream), structural, MAX_CHUNKS_LARGE if len(stream) > 8192 else None)))

    # the order of the reads: 0 = the first consumer that still has chunks (all zeros: one stream after the other)
    pos = [0] * k
    schedule: list[tuple[int, bytes]] = []
    last = -1
    while True:
        active = [i for i in range(k) if pos[i] < len(all_chunks[i])]
        if not active:
            break
        i = active[world.choose("turn", len(active))] if len(active) > 1 else active[0]
        if last >= 0 and i != last and pos[last] < len(all_chunks[last]):
            world.fault("interleave")  # another consumer of the same protocol object reads before `last` got its whole stream
            if sum(len(c) for c in all_chunks[last][: pos[last]]) not in sent[last][2]:
                world.probe("interleave_mid_packet")
        schedule.append((i, all_chunks[i][pos[i]]))
        pos[i] += 1
        last = i

    debug = bool(world.choose("debug", 2))
    world.notes.update(
        entry=entry.name, path=path.name, shared=k, limit=limit, debug=debug, npackets=[len(x[0]) for x in sent], stream_len=[len(x[1]) for x in sent],
        order=[i for i, _ in schedule][:64], chunks=[len(c) for _, c in schedule][:64],
    )
    protocol = entry.protocol(path.needs, limit, debug=debug)  # THE protocol object, shared by the k consumers
    drivers = []
    params = []
    for _ in range(k):
        drivers.append(path.make(protocol, world, False))
        params.append({n: world.notes[n] for n in ("size_hint", "fill_mode") if n in world.notes})
    failed = (path.run_group or run_group_t1)(world, drivers, schedule)

    site = f"C01/{family}/{path.name}-shared"
    for i, d in enumerate(drivers):
        world.log("c01", path.name, entry.name, i, len(all_chunks[i]), tuple(o[0] for o in d.out))
        world.progress(sum(1 for o in d.out if o[0] == "pkt"))

    def ctx(i: int) -> str:
        packets, stream, bounds, _ = sent[i]
        return (
            f"consumer #{i} of {k} sharing one protocol object; entry={entry.name} path={path.name} limit={limit} debug={debug} params={params[i]} "
            f"notes={ {n: world.notes[n] for n in ('max_recv_size', 't2_mode', 'gap', 'head_start', 'slow_receiver', 'retry_interval') if n in world.notes} } "
            f"packets={_short(packets, 400)} stream({len(stream)})={_short(stream, 300)} bounds={bounds}\n"
            f"order of the reads (consumer, bytes)={[(j, len(c)) for j, c in schedule][:96]}\n"
            + "\n".join(f"  stream #{j}({len(sent[j][1])})={_short(sent[j][1], 200)}" for j in range(k) if j != i)
        )

    # feeding stopped at the first non-packet outcome: only that consumer can be judged (clause 1 fires); otherwise all of them
    for i in [failed] if failed is not None else range(k):
        d = drivers[i]
        n_before = getattr(d, "n_before_final", None)
        judge(entry, site, d, sent[i][3], len(d.out) if n_before is None else n_before, lambda i=i: ctx(i))


# ------------------------------------------------------------------------------------------------ harness table
# T1 runs cost ~1 ms, T2 runs several ms: T1 harnesses get 4x their family weight, every T2 harness weight 1 (~20 % of the runs)
_FAMILY_WEIGHT = {"line": 12, "json": 12, "base64": 8, "zlib": 8, "bz2": 4, "struct": 4, "namedtuple": 4, "autosep": 8, "fixed": 4, "filebased": 8, "stapled": 8, "converter": 4}


def make_harnesses(paths: dict[str, Path], suffix: str = "", tiers: tuple = ("quick", "thorough"), wall_limit: float = 120.0) -> list[Harness]:
    out = []
    for family in M.FAMILIES:
        for path in paths.values():
            if not M.select(family, needs=path.needs, roundtrip=True):
                continue
            out.append(
                Harness(
                    f"{family}-{path.name}{suffix}",
                    (lambda w, f=family, p=path: run_roundtrip(w, f, p)),
                    weight=path.weight if path.weight is not None else _FAMILY_WEIGHT.get(family, 1),
                    tiers=tiers,
                    wall_limit=wall_limit,
                )
            )
    return out


# shared-protocol mode: one harness per receive path, the family is drawn inside (weights of _FAMILY_WEIGHT)
_SHARED = [
    (PATHS["copy"], None, 8),
    (PATHS["fill"], None, 10),
    (PATHS["copylazy"], None, 2),
    (T2_PATHS["t2sync-copy"], run_group_t2sync, 1),
    (T2_PATHS["t2sync-fill"], run_group_t2sync, 2),
    (T2_PATHS["t2aio-copy"], run_group_t2aio, 1),
    (T2_PATHS["t2aio-fill"], run_group_t2aio, 2),
]


def make_shared_harnesses() -> list[Harness]:
    out = []
    for path, group, weight in _SHARED:
        p = dataclasses.replace(path, run_group=group)
        out.append(Harness(f"shared-{p.name}", (lambda w, p=p: run_shared(w, p)), weight=weight, wall_limit=120.0))
    return out


HARNESSES = make_harnesses(PATHS) + make_harnesses(T2_PATHS) + make_shared_harnesses()
