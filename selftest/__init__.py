"""./check selftest [--tier quick|thorough]  — determinism and sensitivity self-tests (DESIGN §6).

determinism: for every harness of every claimed property, m seeds (quick 3, thorough 25) are run twice in this process
             and once more in a fresh interpreter under another PYTHONHASHSEED; all trace digests must agree.
sensitivity: every patch of the catalogue is applied to a scratch copy of /repo/src (mktemp, removed afterwards) and the
             property's quick check must exit 1 with a VIOLATION line.  Catalogue = (a) the reverse of every `fix:` commit
             recorded as fixed in known_findings.json, (b) /verif/seeded/<id>/patch.diff (changes written by independent
             sub-agents that saw only the property text), (c) /verif/selftest/mutants/*.patch.
Exit 0 = all digests agree and every catalogue entry marked expected=killed was killed; 2 otherwise.
Results are written to /verif/selftest/results.json.
"""
from __future__ import annotations

import glob
import json
import os
import shutil
import subprocess
import sys
import tempfile
import time

VERIF = os.path.dirname(os.path.dirname(os.path.abspath(__file__)))


def _claimed() -> list[str]:
    with open(os.path.join(VERIF, "MANIFEST.json")) as f:
        return [c["property_id"] for c in json.load(f)["checks"]]


# ---------------------------------------------------------------------------------------------- determinism
def _digests(pid: str, seeds: list[int], only: list[str] | None = None) -> dict[str, str]:
    import logging
    import warnings

    warnings.simplefilter("ignore")
    logging.disable(logging.CRITICAL)
    from vsim.runner import load_property, run_one

    mod = load_property(pid)
    out = {}
    for h in mod.HARNESSES:
        if only and h.name not in only:
            continue
        if "every-offset" in h.name:
            continue  # minutes per run; the quick variant shares all code
        for s in seeds:
            r = run_one(h, s, None, s % 5 != 4)
            out[f"{h.name}:{s}"] = r.digest + ("" if r.error is None else ":ERR")
    return out


def determinism(tier: str, props: list[str]) -> tuple[bool, dict]:
    m = 3 if tier == "quick" else 25
    seeds = [1000 + 7 * i for i in range(m)]
    ok = True
    report = {}
    for pid in props:
        t0 = time.perf_counter()
        a = _digests(pid, seeds)
        b = _digests(pid, seeds)
        env = dict(os.environ, PYTHONHASHSEED="12345", PYTHONPATH=f"/repo/src:{VERIF}")
        code = f"import json,sys; sys.path.insert(0,{VERIF!r}); from selftest import _digests; print(json.dumps(_digests({pid!r}, {seeds!r})))"
        cp = subprocess.run(["/venv/bin/python", "-c", code], capture_output=True, text=True, env=env, timeout=3600)
        try:
            c = json.loads(cp.stdout.strip().splitlines()[-1])
        except Exception:
            c = {"error": cp.stderr[-500:]}
        bad = [k for k in a if a[k] != b.get(k) or a[k] != c.get(k) or a[k].endswith(":ERR")]
        report[pid] = {"runs": len(a), "mismatches": bad[:10], "wall_s": round(time.perf_counter() - t0, 1)}
        print(f"determinism {pid}: {len(a)} runs x3, mismatches={len(bad)} ({report[pid]['wall_s']}s)", flush=True)
        if bad:
            ok = False
    return ok, report


# ---------------------------------------------------------------------------------------------- sensitivity
def _catalogue() -> list[dict]:
    cat = []
    with open(os.path.join(VERIF, "known_findings.json")) as f:
        kf = json.load(f)["findings"]
    seen = set()
    for k in kf:
        if k.get("status") == "fixed" and (k["commit"], k["property"]) not in seen:
            seen.add((k["commit"], k["property"]))
            cat.append({"id": f"revert-{k['commit']}-{k['property']}", "property": k["property"], "kind": "revert-fix", "commit": k["commit"], "expected": "killed", "check": k.get("selftest_check_args", [])})
    for meta in sorted(glob.glob(os.path.join(VERIF, "seeded", "*", "meta.json"))):
        with open(meta) as f:
            m = json.load(f)
        cat.append({"id": "seeded-" + os.path.basename(os.path.dirname(meta)), "property": m.get("check_property", m["property"]), "kind": "seeded", "patch": os.path.join(os.path.dirname(meta), "patch.diff"), "expected": m.get("expected", "killed"), "check": m.get("check_args", [])})
    for p in sorted(glob.glob(os.path.join(VERIF, "selftest", "mutants", "*.patch"))):
        name = os.path.basename(p)[:-6]
        cat.append({"id": "mutant-" + name, "property": name.split("-")[0], "kind": "mutant", "patch": p, "expected": "killed"})
    return cat


def _run_entry(e: dict, budget: int) -> dict:
    d = tempfile.mkdtemp(prefix="verif-sens-")
    t0 = time.perf_counter()
    try:
        subprocess.run(["git", "-C", "/repo", "worktree", "add", "-q", "--detach", os.path.join(d, "wt"), "HEAD"], check=True, capture_output=True)
        wt = os.path.join(d, "wt")
        # generated, untracked file
        shutil.copy("/repo/src/easynetwork/version.py", os.path.join(wt, "src", "easynetwork", "version.py"))
        if e["kind"] == "revert-fix":
            # later fix commits that touched the same files are reverted first (newest first), then the target
            files = subprocess.run(["git", "-C", "/repo", "show", "--format=", "--name-only", e["commit"], "--", "src"], capture_output=True, text=True, check=True).stdout.split()
            later = subprocess.run(["git", "-C", "/repo", "log", "--format=%h", f"{e['commit']}..HEAD", "--", *files], capture_output=True, text=True, check=True).stdout.split()
            ap = None
            for c in [*later, e["commit"]]:
                diff = subprocess.run(["git", "-C", "/repo", "show", "--format=", c, "--", *files], capture_output=True, text=True, check=True).stdout
                ap = subprocess.run(["git", "-C", wt, "apply", "-R", "-"], input=diff, capture_output=True, text=True)
                if ap.returncode != 0:
                    break
            e = {**e, "also_reverted": later}
            assert ap is not None
        else:
            ap = subprocess.run(["git", "-C", wt, "apply", "--3way", e["patch"]], capture_output=True, text=True)
        if ap.returncode != 0:
            return {**e, "result": "patch-does-not-apply", "detail": ap.stderr[-300:]}
        env = dict(os.environ, VERIF_REPO_SRC=os.path.join(wt, "src"))
        cp = subprocess.run([os.path.join(VERIF, "check"), e["property"], "--budget", str(budget), "--no-evidence", *e.get("check", [])], capture_output=True, text=True, env=env, timeout=budget * 6 + 600)
        keys = sorted({l.split("key=")[1].strip() for l in cp.stdout.splitlines() if "key=" in l and "clause=" in l})
        res = "killed" if cp.returncode == 1 and "VIOLATION property=" in cp.stdout else ("harness-error" if cp.returncode == 2 else "survived")
        return {**e, "result": res, "keys": keys[:6], "wall_s": round(time.perf_counter() - t0, 1)}
    finally:
        subprocess.run(["git", "-C", "/repo", "worktree", "remove", "--force", os.path.join(d, "wt")], capture_output=True)
        shutil.rmtree(d, ignore_errors=True)
        # replay files of mutated trees are not findings of this tree
        for f in glob.glob(os.path.join(VERIF, "replays", f"{e['property']}-*.json")):
            try:
                if os.path.getmtime(f) >= time.time() - (time.perf_counter() - t0) - 1:
                    os.remove(f)
            except OSError:
                pass


def sensitivity(tier: str, props: list[str], only: str | None = None) -> tuple[bool, list]:
    budget = 30 if tier == "quick" else 90
    results = []
    ok = True
    for e in _catalogue():
        if e["property"] not in props:
            continue
        if only and only not in e["id"]:
            continue
        r = _run_entry(e, budget)
        results.append(r)
        print(f"sensitivity {r['id']}: {r['result']} keys={r.get('keys')} ({r.get('wall_s')}s)", flush=True)
        if r["result"] != r["expected"]:
            ok = False
    return ok, results


def main(args) -> int:
    props = _claimed()
    sel = os.environ.get("SELFTEST_PROPS")
    if sel:
        props = [p for p in props if p in sel.split(",")]
    what = os.environ.get("SELFTEST_WHAT", "determinism,sensitivity,conformance").split(",")
    out: dict = {"tier": args.tier}
    ok = True
    if "determinism" in what:
        o, rep = determinism(args.tier, props)
        ok &= o
        out["determinism"] = rep
    if "sensitivity" in what:
        o, res = sensitivity(args.tier, props, os.environ.get("SELFTEST_ONLY"))
        ok &= o
        out["sensitivity"] = res
    if "conformance" in what:
        # stub conformance (DESIGN §6): SimSocket/SimSelector/SimEventLoop vs real sockets, see selftest/conformance.py
        from selftest.conformance import run as conformance_run

        o, conf = conformance_run(args.tier)
        ok &= o
        out["conformance"] = conf
    path = os.path.join(VERIF, "selftest", "results.json")
    prev = {}
    if os.path.exists(path):
        try:
            prev = json.load(open(path))
        except Exception:
            prev = {}
    prev.update(out)
    with open(path, "w") as f:
        json.dump(prev, f, indent=1)
    print("selftest", "OK" if ok else "FAILED")
    return 0 if ok else 2
