"""Stub-conformance self-test (DESIGN §6): SimSocket / SimSelector / SimEventLoop versus the real kernel.

A fixed set of fault-free scripted scenarios is executed twice through the SAME EasyNetwork / asyncio code:

  (A) "sim"  : SimSocket + SimSelector (+ SimEventLoop, virtual time), exactly the default configuration the property
               checks use, plus ``SimNet.icmp_refused = True`` for the datagram-to-a-closed-port scenarios (loopback does
               deliver ICMP port-unreachable);
  (B) "real" : socket.socketpair() / 127.0.0.1 TCP and UDP sockets, the real selectors and the real asyncio loop, with
               wall-clock waits of at most STEP seconds per step.

Every scenario is a function ``sc(env)`` that fills ``env.obs`` with ``[label, value]`` pairs: values returned by the
library, exception types (+ errno name), the order of ``eof_received`` / ``connection_lost`` / ``pause_writing`` /
``resume_writing`` callbacks relative to the script steps.  Both observation lists must be equal after the scenario's
normalisation (only where real behaviour is legitimately timing/size dependent; said at the place).  A label listed in
a scenario's ``deviations`` table is a *documented deviation*: the simulator deliberately differs there (DESIGN §2.6 /
comment in vsim/sock.py); it is accepted only with exactly the recorded (sim, real) values and reported in the result.

Real sockets are not schedule-deterministic, so this never decides a property; it only runs in ``./check selftest``
(``SELFTEST_WHAT=conformance``).

What real Linux does when a stream peer closes (probed on this kernel, kept here because scenario 4 depends on it):

  peer close()                      | AF_UNIX socketpair                      | TCP loopback
  ----------------------------------+-----------------------------------------+---------------------------------------------
  clean (nothing unread at peer)    | recv -> b""; every send -> EPIPE        | recv -> b""; 1st send ACCEPTED (peer answers
                                    |                                         | RST), later sends -> EPIPE, recv stays b""
  with unread data at the peer      | recv -> ECONNRESET once, then b"";      | ONE pending error shared by both directions:
                                    | send -> EPIPE always (independent)      | whichever of recv/send comes first gets
                                    |                                         | ECONNRESET; afterwards send -> EPIPE, recv -> b""
  data queued towards us before the | delivered first, then ECONNRESET        | delivered first, then ECONNRESET, then b""
  abortive close                    |                                         |
  getpeername() after the reset     | unchanged ('' for a socketpair)         | ENOTCONN (also for a connection reset while it
                                    |                                         | was still in the accept queue; accept() still
                                    |                                         | returns that socket)
  poll() after the reset            | IN|OUT|ERR|HUP                          | IN|OUT|ERR|HUP (readable AND writable)

SimSocket models AF_INET/TCP, therefore the TCP column is the reference.  Before this self-test existed SimSocket behaved
like the AF_UNIX column (plus: a reset discarded bytes that had already arrived, and recv(0) on an empty socket raised
EAGAIN); vsim/sock.py was changed to the TCP column except for the two rows that are opt-in flags of SimNet
(``first_write_after_fin_ok``, ``getpeername_enotconn_after_reset``) and reported here as documented deviations.

Other real-kernel facts the scenarios pin (all agree with the simulator): a datagram larger than the receive buffer is
silently truncated and its rest dropped; an empty datagram is delivered as b""; a connected UDP socket does not see
datagrams from other addresses; after a datagram to a closed port the ICMP error is reported ONCE (ECONNREFUSED) by the
next recv or send on a CONNECTED socket (never on an unconnected one) and makes it readable+writable meanwhile; a full
TCP/AF_UNIX send buffer stays not-writable until the peer has read (much) more than one byte; every call on a closed
socket object fails with EBADF, fileno() is -1, close() twice is fine; connect() to a closed loopback port completes
asynchronously with SO_ERROR=ECONNREFUSED.
"""
from __future__ import annotations

import asyncio
import contextlib
import errno
import hashlib
import logging
import math
import select as _select
import selectors
import socket
import struct
import threading
import time
import traceback
import warnings
from typing import Any, Callable

STEP = 2.0  # seconds allowed per step: wall clock on real sockets, virtual on the simulator
REAL_SCENARIO_LIMIT = 15.0  # wall seconds for one async scenario on the real loop
TOTAL_LIMIT = 60.0  # wall seconds for the whole self-test; scenarios not started by then are reported as mismatches
ATTEMPTS = 3  # a mismatch must persist in every attempt (a simulator deviation is deterministic, a wall-clock hiccup is not)


# ================================================================================================ observations
def _j(v: Any) -> Any:
    """JSON-able, comparable rendering of a value"""
    if isinstance(v, (bytes, bytearray, memoryview)):
        b = bytes(v)
        if len(b) <= 64:
            return {"bytes": b.decode("latin-1")}
        return {"bytes_len": len(b), "sha1": hashlib.sha1(b).hexdigest()[:12]}
    if isinstance(v, (list, tuple)):
        return [_j(x) for x in v]
    if isinstance(v, dict):
        return {str(k): _j(x) for k, x in v.items()}
    if isinstance(v, (int, float, str, bool)) or v is None:
        return v
    return type(v).__name__


def exc_desc(e: BaseException) -> Any:
    if isinstance(e, BaseExceptionGroup):
        return ["group", sorted((exc_desc(x) for x in e.exceptions), key=repr)]
    if isinstance(e, OSError) and e.errno is not None:
        return [type(e).__name__, errno.errorcode.get(e.errno, str(e.errno))]
    return [type(e).__name__]


class Obs(list):  # type: ignore[type-arg]
    def add(self, label: str, value: Any = None) -> None:
        self.append([label, _j(value)])

    def call(self, label: str, fn: Callable[..., Any], *a: Any, **kw: Any) -> Any:
        try:
            v = fn(*a, **kw)
        except Exception as e:  # noqa: BLE001 - the exception type IS the observation
            self.add(label, {"raised": exc_desc(e)})
            return None
        self.add(label, v)
        return v

    async def acall(self, label: str, aw: Any, timeout: float = STEP) -> Any:
        """await `aw` for at most `timeout` seconds (virtual / wall); a step that does not finish is an observation too"""
        cm = asyncio.timeout(timeout)
        try:
            async with cm:
                v = await aw
        except Exception as e:  # noqa: BLE001
            if isinstance(e, TimeoutError) and cm.expired():
                self.add(label, "STEP-DID-NOT-FINISH")
            else:
                self.add(label, {"raised": exc_desc(e)})
            return None
        self.add(label, v)
        return v


# ================================================================================================ peers
class PeerCtl:
    """The scripted remote end: a plain non-blocking socket object (SimSocket or real) driven with the socket API."""

    def __init__(self, env: "Env", sock: Any):
        self.env = env
        self.sock = sock
        self.buf = bytearray()
        self.eof = False
        self.reset = False
        self.closed = False
        self.lock = threading.RLock()
        self.drainer: Any = None
        self.total = 0

    def poll(self) -> None:
        """read everything that is readable now"""
        with self.lock:
            if self.closed or self.eof or self.reset:
                return
            while True:
                try:
                    d = self.sock.recv(1 << 16)
                except (BlockingIOError, InterruptedError):
                    return
                except ConnectionResetError:
                    self.reset = True
                    return
                if not d:
                    self.eof = True
                    return
                self.buf += d
                self.total += len(d)

    def take(self, n: int | None = None) -> bytes:
        with self.lock:
            n = len(self.buf) if n is None else n
            d = bytes(self.buf[:n])
            del self.buf[:n]
            return d

    def send(self, data: bytes) -> None:
        mv = memoryview(data)
        while mv:
            n = self.sock.send(mv)  # scripts only send what fits: BlockingIOError here is a script error
            mv = mv[n:]

    def shutdown_wr(self) -> None:
        self.sock.shutdown(socket.SHUT_WR)

    def close(self) -> None:
        self.env.stop_drain(self)
        with self.lock:
            self.closed = True
            self.sock.close()

    def abort(self) -> None:
        """abortive close (RST)"""
        self.env.stop_drain(self)
        with self.lock:
            self.closed = True
            self.env.abort_socket(self.sock)


# ================================================================================================ environments
class Env:
    kind = "?"
    selector_factory: Any = None
    backend: Any = None

    def __init__(self) -> None:
        self.obs = Obs()
        self._socks: list[Any] = []
        self._n = 0

    # -- to be provided
    def stream_pair(self, tcp: bool = False, sndbuf: int | None = None) -> tuple[Any, PeerCtl]:
        raise NotImplementedError

    # -- shared helpers
    def read(self, peer: PeerCtl, n: int) -> Any:
        ok = self.wait(lambda: (peer.poll(), len(peer.buf) >= n)[1])
        return peer.take(n) if ok else {"short": peer.take()}

    async def aread(self, peer: PeerCtl, n: int) -> Any:
        ok = await self.await_(lambda: (peer.poll(), len(peer.buf) >= n)[1])
        return peer.take(n) if ok else {"short": peer.take()}

    def peer_state(self, peer: PeerCtl) -> str:
        self.settle()
        peer.poll()
        return "reset" if peer.reset else "eof" if peer.eof else "open"

    async def apeer_state(self, peer: PeerCtl) -> str:
        await self.asettle()
        peer.poll()
        return "reset" if peer.reset else "eof" if peer.eof else "open"

    def stop_drain(self, peer: PeerCtl) -> None:
        pass


class SimEnv(Env):
    kind = "sim"

    def __init__(self) -> None:
        super().__init__()
        from vsim.backend import SimAsyncIOBackend
        from vsim.sock import SimNet
        from vsim.world import World

        self.world = World(0, choices=[])  # replay mode with an empty list: every choice is 0 = boring, fault-free
        self.net = SimNet(self.world)
        self.net.icmp_refused = True  # loopback reports a closed UDP port (scenario 9)
        self.backend = SimAsyncIOBackend(self.net)

    # ---- sockets
    def stream_pair(self, tcp: bool = False, sndbuf: int | None = None) -> tuple[Any, PeerCtl]:
        self._n += 1
        kw: dict[str, Any] = {"capacity_ab": sndbuf} if sndbuf else {}
        lib, peer = self.net.socketpair(f"lib{self._n}", f"peer{self._n}", **kw)
        peer.setblocking(False)
        self._socks += [lib, peer]
        return lib, PeerCtl(self, peer)

    def udp_socket(self, bind: bool = True) -> Any:
        s = self.net.new_socket(socket.AF_INET, socket.SOCK_DGRAM)
        if bind:
            s.bind(("127.0.0.1", 0))
        s.setblocking(False)
        self._socks.append(s)
        return s

    def dead_addr(self, kind: int) -> tuple[str, int]:
        return self.net.alloc_addr()

    def listener(self) -> Any:
        s = self.net.new_socket(socket.AF_INET, socket.SOCK_STREAM)
        s.bind(("127.0.0.1", 0))
        s.listen(8)
        s.setblocking(False)
        self._socks.append(s)
        return s

    def connect_peer(self, addr: tuple) -> PeerCtl:
        self._n += 1
        p = self.net.connect_to_listener(self.net.listeners[tuple(addr[:2])], label=f"cli{self._n}")
        p.setblocking(False)
        self._socks.append(p)
        return PeerCtl(self, p)

    def abort_socket(self, sock: Any) -> None:
        # what vsim.harness.Peer.reset() does (the form the property checks use), then the descriptor goes away silently
        sock.tx_pipe.reset()
        sock.rx_pipe.reader_closed = True
        sock.sim_closed = True
        sock._closed = True

    # ---- time
    def settle(self) -> None:
        from vsim.harness import vsleep

        vsleep(self.world, 1 / 32)

    def wait(self, pred: Callable[[], bool], timeout: float = STEP) -> bool:
        from vsim.harness import vsleep

        t0 = self.world.now
        while not pred():
            if self.world.now - t0 > timeout:
                return False
            vsleep(self.world, 1 / 64)
        return True

    def later(self, delay: float, fn: Callable[[], None]) -> None:
        self.world.after(delay, fn)

    async def asettle(self) -> None:
        await asyncio.sleep(1 / 32)

    async def await_(self, pred: Callable[[], bool], timeout: float = STEP) -> bool:
        t0 = self.world.now
        while not pred():
            if self.world.now - t0 > timeout:
                return False
            await asyncio.sleep(1 / 64)
        return True

    def start_drain(self, peer: PeerCtl) -> None:
        peer.sock.rx_pipe.on_visible = peer.poll
        peer.poll()

    def stop_drain(self, peer: PeerCtl) -> None:
        if getattr(peer.sock, "rx_pipe", None) is not None:
            peer.sock.rx_pipe.on_visible = None

    # ---- run
    def run(self, sc: "Scenario") -> Obs:
        from vsim.backend import sim_sockets
        from vsim.harness import sync_engine
        from vsim.loop import run_async

        try:
            with sim_sockets(self.net):
                if sc.is_async:
                    run_async(self.world, lambda: sc.fn(self))
                else:
                    with sync_engine(self.world) as make_selector:
                        self.selector_factory = make_selector
                        sc.fn(self)
        finally:
            for s in self.world.sockets:
                with contextlib.suppress(Exception):
                    s.close()
        return self.obs


class RealEnv(Env):
    kind = "real"

    def __init__(self) -> None:
        super().__init__()
        from easynetwork.lowlevel.api_async.backend._asyncio.backend import AsyncIOBackend

        self.backend = AsyncIOBackend()
        self._timers: list[threading.Timer] = []
        self._threads: list[threading.Thread] = []

    # ---- sockets
    def stream_pair(self, tcp: bool = False, sndbuf: int | None = None) -> tuple[Any, PeerCtl]:
        if tcp:
            with socket.socket() as l:
                l.bind(("127.0.0.1", 0))
                l.listen(1)
                lib = socket.socket()
                if sndbuf:
                    lib.setsockopt(socket.SOL_SOCKET, socket.SO_SNDBUF, sndbuf)
                lib.settimeout(STEP)
                lib.connect(l.getsockname())
                lib.settimeout(None)
                l.settimeout(STEP)
                peer, _ = l.accept()
        else:
            lib, peer = socket.socketpair()
            if sndbuf:
                lib.setsockopt(socket.SOL_SOCKET, socket.SO_SNDBUF, sndbuf)
        peer.setblocking(False)
        self._socks += [lib, peer]
        return lib, PeerCtl(self, peer)

    def udp_socket(self, bind: bool = True) -> Any:
        s = socket.socket(socket.AF_INET, socket.SOCK_DGRAM)
        if bind:
            s.bind(("127.0.0.1", 0))
        s.setblocking(False)
        self._socks.append(s)
        return s

    def dead_addr(self, kind: int) -> tuple[str, int]:
        with socket.socket(socket.AF_INET, kind) as s:
            s.bind(("127.0.0.1", 0))
            return s.getsockname()

    def listener(self) -> Any:
        s = socket.socket()
        s.bind(("127.0.0.1", 0))
        s.listen(8)
        s.setblocking(False)
        self._socks.append(s)
        return s

    def connect_peer(self, addr: tuple) -> PeerCtl:
        p = socket.create_connection(tuple(addr[:2]), timeout=STEP)
        p.setblocking(False)
        self._socks.append(p)
        return PeerCtl(self, p)

    def abort_socket(self, sock: Any) -> None:
        sock.setsockopt(socket.SOL_SOCKET, socket.SO_LINGER, struct.pack("ii", 1, 0))
        sock.close()

    # ---- time
    def settle(self) -> None:
        time.sleep(0.03)

    def wait(self, pred: Callable[[], bool], timeout: float = STEP) -> bool:
        t0 = time.monotonic()
        while not pred():
            if time.monotonic() - t0 > timeout:
                return False
            time.sleep(0.002)
        return True

    def later(self, delay: float, fn: Callable[[], None]) -> None:
        t = threading.Timer(delay, fn)
        t.daemon = True
        self._timers.append(t)
        t.start()

    async def asettle(self) -> None:
        await asyncio.sleep(0.03)

    async def await_(self, pred: Callable[[], bool], timeout: float = STEP) -> bool:
        t0 = time.monotonic()
        while not pred():
            if time.monotonic() - t0 > timeout:
                return False
            await asyncio.sleep(0.002)
        return True

    def start_drain(self, peer: PeerCtl) -> None:
        stop = threading.Event()

        def loop() -> None:
            while not stop.is_set():
                with peer.lock:
                    if peer.closed or peer.eof or peer.reset:
                        return
                    sock = peer.sock
                try:
                    _select.select([sock], [], [], 0.02)
                except (OSError, ValueError):
                    return
                peer.poll()

        th = threading.Thread(target=loop, name="conformance-drain", daemon=True)
        peer.drainer = (th, stop)
        self._threads.append(th)
        th.start()

    def stop_drain(self, peer: PeerCtl) -> None:
        if peer.drainer is not None:
            th, stop = peer.drainer
            peer.drainer = None
            stop.set()
            if th is not threading.current_thread():
                th.join(STEP)

    # ---- run
    def run(self, sc: "Scenario") -> Obs:
        try:
            if sc.is_async:

                async def main() -> None:
                    await asyncio.wait_for(sc.fn(self), REAL_SCENARIO_LIMIT)

                asyncio.run(main())
            else:
                sc.fn(self)
        finally:
            for t in self._timers:
                t.cancel()
            for s in self._socks:
                with contextlib.suppress(Exception):
                    s.close()
            for th in self._threads:
                th.join(STEP)
        return self.obs


# ================================================================================================ callback spy
@contextlib.contextmanager
def spy_stream_protocol(obs: Obs):
    """record eof_received / connection_lost / pause_writing / resume_writing of EasyNetwork's asyncio stream protocol
    in the observation list, in the order they happen relative to the script steps (buffer_updated is not recorded:
    fragmentation may differ; the concatenation is compared through what recv() returns)"""
    from easynetwork.lowlevel.api_async.backend._asyncio.stream.socket import StreamReaderBufferedProtocol as P

    saved = {n: getattr(P, n) for n in ("eof_received", "connection_lost", "pause_writing", "resume_writing")}

    def wrap(name: str) -> Callable[..., Any]:
        orig = saved[name]

        def method(self: Any, *a: Any) -> Any:
            if name == "connection_lost":
                obs.add("cb connection_lost", None if a[0] is None else exc_desc(a[0]))
            else:
                obs.add("cb " + name)
            return orig(self, *a)

        return method

    for n in saved:
        setattr(P, n, wrap(n))
    try:
        yield
    finally:
        for n, f in saved.items():
            setattr(P, n, f)


# ================================================================================================ scenarios
def _stream_transport(env: Env, sock: Any) -> Any:
    from easynetwork.lowlevel.api_sync.transports.socket import SocketStreamTransport

    return SocketStreamTransport(sock, math.inf, selector_factory=env.selector_factory)


def s01_sync_echo(env: Env) -> None:
    """(1) blocking SocketStreamTransport: send / recv / recv_into / send_all_from_iterable / close against a scripted peer"""
    o = env.obs
    lib, peer = env.stream_pair()
    tr = _stream_transport(env, lib)
    o.call("send_all", tr.send_all, b"hello", 1.0)
    o.add("peer got", env.read(peer, 5))
    peer.send(b"world")
    env.settle()
    o.call("recv(1024, 1.0)", tr.recv, 1024, 1.0)
    env.later(0.05, lambda: peer.send(b"late"))
    o.call("recv blocks until the peer writes", tr.recv, 1024, STEP)
    peer.send(b"0123456789")
    env.settle()
    buf = bytearray(4)
    o.call("recv_into(4)", tr.recv_into, buf, 1.0)
    o.add("buffer", bytes(buf))
    o.call("recv rest", tr.recv, 1024, 1.0)
    o.call("send_all_from_iterable", tr.send_all_from_iterable, [b"a", b"", b"bc", b""], 1.0)
    o.add("peer got", env.read(peer, 3))
    o.call("send(…) returns count", tr.send, b"xyz", 1.0)
    o.add("peer got", env.read(peer, 3))
    o.add("is_closed before", tr.is_closed())
    o.call("close", tr.close)
    o.add("is_closed after", tr.is_closed())
    o.add("peer sees", env.peer_state(peer))
    o.call("recv after close", tr.recv, 16, 0)
    o.call("send after close", tr.send, b"x", 0)


def s02_sync_recv_timeout_zero(env: Env) -> None:
    """(2) recv with timeout 0 / a small timeout on an empty socket -> TimeoutError; then data, partial reads"""
    o = env.obs
    lib, peer = env.stream_pair()
    tr = _stream_transport(env, lib)
    o.call("recv t=0 empty", tr.recv, 16, 0)
    o.call("recv t=0.05 empty", tr.recv, 16, 0.05)
    o.call("recv_into t=0 empty", tr.recv_into, bytearray(4), 0)
    peer.send(b"abcde")
    env.settle()
    o.call("recv(3) t=0", tr.recv, 3, 0)
    o.call("recv(16) t=0", tr.recv, 16, 0)
    o.call("recv(16) t=0 drained", tr.recv, 16, 0)
    o.call("recv(0) t=0", tr.recv, 0, 0)
    tr.close()


def s03_half_close(env: Env) -> None:
    """(3) the peer half-closes (SHUT_WR): the library reads the data, then a sticky b"", and can still send; then send_eof"""
    o = env.obs
    lib, peer = env.stream_pair()
    tr = _stream_transport(env, lib)
    peer.send(b"bye")
    peer.shutdown_wr()
    env.settle()
    o.call("recv", tr.recv, 1024, 1.0)
    o.call("recv -> EOF", tr.recv, 1024, 1.0)
    o.call("recv -> EOF again (t=0)", tr.recv, 1024, 0)
    o.call("recv_into -> 0", tr.recv_into, bytearray(8), 0)
    o.call("send_all after the peer's FIN", tr.send_all, b"still here", 1.0)
    o.add("peer got", env.read(peer, 10))
    o.call("send_eof", tr.send_eof)
    o.add("peer sees", env.peer_state(peer))
    o.call("send_eof again", tr.send_eof)
    o.call("send after send_eof", tr.send, b"x", 0.05)
    o.call("recv after send_eof", tr.recv, 16, 0)
    o.call("close", tr.close)
    o.add("fileno", lib.fileno())


def _s04(env: Env, order: str, peer_data: bytes) -> None:
    o = env.obs
    lib, peer = env.stream_pair(tcp=True)
    tr = _stream_transport(env, lib)
    if peer_data:
        peer.send(peer_data)
    o.call("send_all", tr.send_all, b"unread", 1.0)
    env.settle()
    peer.close()  # never read: the peer's stack answers with a reset
    env.settle()
    for i, op in enumerate(order.split(",")):
        if op == "recv":
            o.call(f"{i} recv", tr.recv, 1024, 0.5)
        else:
            o.call(f"{i} send", tr.send, b"x", 0.5)
        env.settle()
    o.call("close", tr.close)


def s04a_peer_close_unread_recv_first(env: Env) -> None:
    """(4) TCP: peer closes with unread data in its receive queue; library reads first: ECONNRESET, then EPIPE, then b"" """
    _s04(env, "recv,send,send,recv", b"")


def s04b_peer_close_unread_send_first(env: Env) -> None:
    """(4) same, library writes first: the one pending ECONNRESET goes to the send, later send EPIPE, recv b"" """
    _s04(env, "send,send,recv,recv", b"")


def s04c_peer_close_unread_data_first(env: Env) -> None:
    """(4) same, but the peer had written before: that data is delivered first, then ECONNRESET, then b"" """
    _s04(env, "recv,recv,recv,send", b"fromPeer")


def s04d_send_eof_after_reset(env: Env) -> None:
    """(4) TCP: shutdown(SHUT_WR) (send_eof) once the peer's reset has arrived, before anything consumed it: ENOTCONN"""
    o = env.obs
    lib, peer = env.stream_pair(tcp=True)
    tr = _stream_transport(env, lib)
    o.call("send_all", tr.send_all, b"unread", 1.0)
    env.settle()
    peer.close()  # never read: the peer's stack answers with a reset
    env.settle()
    o.call("raw shutdown(SHUT_WR) after the reset arrived", lib.shutdown, socket.SHUT_WR)
    o.call("send_eof", tr.send_eof)
    o.call("recv", tr.recv, 1024, 0.5)
    o.call("raw shutdown(SHUT_WR) again", lib.shutdown, socket.SHUT_WR)
    o.call("close", tr.close)


def s05a_sync_full_pipe(env: Env) -> None:
    """(5) blocking send on a full pipe: would-block -> TimeoutError (timeout 0 and small), progress once the peer reads.
    Normalised: how many bytes fit is a buffer-size matter; only 'the peer finally has exactly what was reported sent'."""
    o = env.obs
    lib, peer = env.stream_pair(sndbuf=8192)
    tr = _stream_transport(env, lib)
    sent = 0
    outcome: Any = "never-blocked"
    for _ in range(100_000):
        try:
            sent += tr.send(b"z" * 4096, 0)
        except Exception as e:  # noqa: BLE001
            outcome = {"raised": exc_desc(e)}
            break
    o.add("fill until it would block", outcome)
    o.add("something was accepted first", sent > 0)
    o.call("send t=0.05 while full", tr.send, b"z", 0.05)
    env.later(0.05, lambda: env.start_drain(peer))
    o.call("send_all completes once the peer reads", tr.send_all, b"y" * 100, STEP)
    o.add("peer has everything", env.wait(lambda: peer.total == sent + 100))
    tr.close()
    o.add("peer sees", env.peer_state(peer))


async def s05b_async_full_pipe(env: Env) -> None:
    """(5) asyncio adapter: send_all larger than the pipe suspends (pause_writing), resumes when the peer reads"""
    o = env.obs
    lib, peer = env.stream_pair(sndbuf=8192)
    big = b"q" * (4 << 20)
    with spy_stream_protocol(o):
        ad = await env.backend.wrap_stream_socket(lib)
        await o.acall("small send_all", ad.send_all(b"tiny"))
        t = asyncio.ensure_future(ad.send_all(big))
        await env.asettle()
        o.add("step: big send_all suspended", not t.done())
        env.start_drain(peer)
        await o.acall("big send_all", t, timeout=10.0)
        o.add("peer has everything", await env.await_(lambda: peer.total == len(big) + 4, 10.0))
        o.add("step: second send_all")
        await o.acall("send_all again", ad.send_all(b"z" * 10))
        await o.acall("aclose", ad.aclose())
    o.add("peer sees", await env.apeer_state(peer))


async def s06a_async_adapter_sequences(env: Env) -> None:
    """(6) asyncio adapter: recv / recv_into / send_all / send_all_from_iterable / send_eof / EOF / aclose sequences"""
    o = env.obs
    lib, peer = env.stream_pair()
    with spy_stream_protocol(o):
        ad = await env.backend.wrap_stream_socket(lib)
        await o.acall("send_all", ad.send_all(b"hello"))
        o.add("peer got", await env.aread(peer, 5))
        peer.send(b"world")
        await o.acall("recv(1024)", ad.recv(1024))
        peer.send(b"abcdef")
        await env.asettle()
        await o.acall("recv(4)", ad.recv(4))
        await o.acall("recv(4) rest", ad.recv(4))
        await o.acall("recv(0)", ad.recv(0))
        buf = bytearray(8)
        env.later(0.05, lambda: peer.send(b"0123"))
        n = await o.acall("recv_into waits", ad.recv_into(buf))
        o.add("buffer", bytes(buf[: n or 0]))
        peer.send(b"ABCDEFGHIJ")
        await env.asettle()
        n = await o.acall("recv_into(8) of 10 buffered", ad.recv_into(buf))
        o.add("buffer", bytes(buf[: n or 0]))
        await o.acall("recv rest", ad.recv(100))
        await o.acall("recv with nothing there", ad.recv(100), timeout=0.1)
        await o.acall("send_all_from_iterable", ad.send_all_from_iterable([b"x", b"", b"yz"]))
        o.add("peer got", await env.aread(peer, 3))
        o.add("step: send_eof")
        await o.acall("send_eof", ad.send_eof())
        o.add("peer sees", await env.apeer_state(peer))
        await o.acall("send_all after send_eof", ad.send_all(b"x"))
        o.add("step: peer writes and half-closes")
        peer.send(b"tail")
        peer.shutdown_wr()
        await env.asettle()
        await o.acall("recv", ad.recv(100))
        await o.acall("recv -> EOF", ad.recv(100))
        await o.acall("recv -> EOF again", ad.recv(100))
        await o.acall("recv_into -> 0", ad.recv_into(bytearray(4)))
        o.add("is_closing before", ad.is_closing())
        o.add("step: aclose")
        await o.acall("aclose", ad.aclose())
        o.add("is_closing after", ad.is_closing())
        o.add("fileno", lib.fileno())
        await o.acall("recv after aclose", ad.recv(10))
        await o.acall("send_all after aclose", ad.send_all(b"x"))
        await o.acall("aclose again", ad.aclose())


async def s06b_async_aclose_with_unsent_data(env: Env) -> None:
    """(6) aclose() while a send_all is suspended on a full pipe: waits for the flush; the peer gets everything, then EOF.
    Second connection: the same aclose() cancelled -> abortive: the peer gets only a prefix, then EOF (no data was unread)."""
    o = env.obs
    big = b"u" * (4 << 20)
    with spy_stream_protocol(o):
        lib, peer = env.stream_pair(sndbuf=8192)
        ad = await env.backend.wrap_stream_socket(lib)
        t = asyncio.ensure_future(ad.send_all(big))
        await env.asettle()
        o.add("step: aclose with unsent data")
        c = asyncio.ensure_future(ad.aclose())
        await env.asettle()
        o.add("aclose waits for the flush", not c.done())
        o.add("step: peer starts reading")
        env.start_drain(peer)
        await o.acall("aclose", c, timeout=10.0)
        await o.acall("the suspended send_all", t)
        o.add("peer has everything", await env.await_(lambda: peer.total == len(big), 10.0))
        o.add("peer sees", await env.apeer_state(peer))

        o.add("step: second connection, aclose cancelled")
        lib, peer = env.stream_pair(sndbuf=8192)
        ad = await env.backend.wrap_stream_socket(lib)
        t = asyncio.ensure_future(ad.send_all(big))
        await env.asettle()
        c = asyncio.ensure_future(ad.aclose())
        await env.asettle()
        c.cancel()
        try:
            await c
        except asyncio.CancelledError:
            o.add("cancelled aclose", "CancelledError")
        await o.acall("the suspended send_all", t)
        o.add("fileno", lib.fileno())
        env.start_drain(peer)
        await env.await_(lambda: peer.eof or peer.reset)
        # how much the kernel / the link had accepted is a buffer-size matter: only 'a strict prefix' is compared
        o.add("peer got a strict, non-empty prefix", 0 < peer.total < len(big))
        o.add("peer sees", await env.apeer_state(peer))


async def s07_async_write_after_peer_closed(env: Env) -> None:
    """(7) TCP, asyncio adapter: the peer closes (nothing unread), then the library writes three times, then reads"""
    o = env.obs
    lib, peer = env.stream_pair(tcp=True)
    with spy_stream_protocol(o):
        ad = await env.backend.wrap_stream_socket(lib)
        await o.acall("send_all", ad.send_all(b"hi"))
        o.add("peer got", await env.aread(peer, 2))
        o.add("step: peer closes")
        peer.close()
        await env.asettle()
        for i in (1, 2, 3):
            o.add(f"step: write {i}")
            await o.acall(f"send_all {i} after the peer closed", ad.send_all(b"data%d" % i))
            await env.asettle()
        await o.acall("recv", ad.recv(10))
        o.add("step: aclose")
        await o.acall("aclose", ad.aclose())


async def s07b_async_peer_resets(env: Env) -> None:
    """(7) TCP, asyncio adapter: the peer resets the connection while the library waits in recv(); then writes"""
    o = env.obs
    lib, peer = env.stream_pair(tcp=True)
    with spy_stream_protocol(o):
        ad = await env.backend.wrap_stream_socket(lib)
        t = asyncio.ensure_future(ad.recv(100))
        await env.asettle()
        o.add("step: peer resets")
        peer.abort()
        await o.acall("the waiting recv", t)
        await o.acall("recv again", ad.recv(100))
        await o.acall("send_all", ad.send_all(b"x"))
        await o.acall("aclose", ad.aclose())


def _line_protocol() -> Any:
    from easynetwork.protocol import StreamProtocol
    from easynetwork.serializers.line import StringLineSerializer

    return StreamProtocol(StringLineSerializer())


async def s08_server_accept(env: Env) -> None:
    """(8) AsyncTCPNetworkServer: one request/response, client disconnect -> on_disconnection; a second client that
    resets; a third connection that is reset while still in the accept queue (never reaches the handler on Linux)"""
    from easynetwork.servers.async_tcp import AsyncTCPNetworkServer
    from easynetwork.servers.handlers import AsyncStreamRequestHandler

    o = env.obs
    ev: list[Any] = []

    class H(AsyncStreamRequestHandler):  # type: ignore[type-arg]
        async def on_connection(self, client: Any) -> None:
            ev.append("on_connection")

        async def handle(self, client: Any):  # type: ignore[no-untyped-def]
            req = yield
            ev.append(["request", req])
            await client.send_packet(req.upper())

        async def on_disconnection(self, client: Any) -> None:
            ev.append("on_disconnection")

    def take_events() -> list[Any]:
        out = list(ev)
        ev.clear()
        return out

    async with AsyncTCPNetworkServer("127.0.0.1", 0, _line_protocol(), H(), backend=env.backend) as srv:
        st = asyncio.ensure_future(srv.serve_forever())
        o.add("serving", await env.await_(lambda: bool(srv.get_addresses())))
        a = srv.get_addresses()[0]
        addr = (a.host, a.port)
        o.add("address family/port>0", [a.host, a.port > 0])

        peer = env.connect_peer(addr)
        await env.asettle()
        o.add("events after connect", take_events())
        peer.send(b"hello\nwor")
        o.add("response", await env.aread(peer, 6))
        peer.send(b"ld\n")
        o.add("response", await env.aread(peer, 6))
        o.add("events", take_events())
        peer.close()
        await env.await_(lambda: "on_disconnection" in ev)
        o.add("events after client close", take_events())

        peer = env.connect_peer(addr)
        await env.asettle()
        peer.send(b"x\n")
        o.add("response", await env.aread(peer, 2))
        peer.abort()
        await env.await_(lambda: "on_disconnection" in ev)
        o.add("events after client reset", take_events())

        # connection reset while it is still in the accept queue: hold the loop (no await) between connect and abort
        peer = env.connect_peer(addr)
        peer.abort()
        await env.asettle()
        await env.asettle()
        o.add("events for a connection reset before accept", take_events())

        peer = env.connect_peer(addr)
        peer.send(b"again\n")
        o.add("server still serves", await env.aread(peer, 6))
        await o.acall("shutdown", srv.shutdown())
        await asyncio.wait([st], timeout=STEP)
        o.add("serve_forever ended", st.done())
        o.add("peer sees", await env.apeer_state(peer))
    o.add("events at the end", take_events())


def _dgram_protocol() -> Any:
    from easynetwork.protocol import DatagramProtocol
    from easynetwork.serializers.line import StringLineSerializer

    return DatagramProtocol(StringLineSerializer())


def _norm_refused(obs: list) -> list:
    """Real loopback delivers the ICMP error while send() is still in the kernel, the simulator one world event later.
    So the ONE ConnectionRefusedError is reported by send_packet itself (UDPNetworkClient reads SO_ERROR right after
    sending: real) or by the recv_packet that follows (SocketDatagramTransport: both; UDPNetworkClient: sim); the other
    call of the pair then returns None / times out.  Legitimately timing dependent, therefore normalised: per endpoint,
    the (send_packet, recv_packet) pair reports exactly N refusals and nothing else unexpected."""
    refused = {"raised": ["ConnectionRefusedError", "ECONNREFUSED"]}
    benign = (None, {"raised": ["TimeoutError", "ETIMEDOUT"]})
    out = []
    group: list[Any] = []
    for label, v in obs:
        if label.startswith("pair "):
            group.append(v)
            if len(group) == 2:
                out.append([label.split(":")[0] + ": refusals reported by send_packet+recv_packet", sum(1 for g in group if g == refused)])
                out.append([label.split(":")[0] + ": other outcomes are None/TimeoutError", all(g in benign for g in group if g != refused)])
                group = []
        else:
            out.append([label, v])
    return out


def s09a_sync_udp_closed_port(env: Env) -> None:
    """(9) connected UDP socket, datagram to a closed port -> ConnectionRefusedError on the blocking endpoints"""
    from easynetwork.clients.udp import UDPNetworkClient
    from easynetwork.lowlevel.api_sync.endpoints.datagram import DatagramEndpoint
    from easynetwork.lowlevel.api_sync.transports.socket import SocketDatagramTransport

    o = env.obs
    dead = env.dead_addr(socket.SOCK_DGRAM)
    for name in ("endpoint", "client"):
        s = env.udp_socket()
        s.connect(dead)
        if name == "endpoint":
            ep: Any = DatagramEndpoint(SocketDatagramTransport(s, math.inf, selector_factory=env.selector_factory), _dgram_protocol())
        else:
            ep = UDPNetworkClient(s, _dgram_protocol())
        o.call(f"pair {name}: send_packet", ep.send_packet, "ping", timeout=1.0)
        o.call(f"pair {name}: recv_packet", ep.recv_packet, timeout=0.5)
        o.call(f"{name}: recv_packet again (error was consumed)", ep.recv_packet, timeout=0.05)
        o.call(f"{name}: close", ep.close)
        o.add(f"{name}: fileno", s.fileno())


async def s09b_async_udp_closed_port(env: Env) -> None:
    """(9) same on the asyncio datagram adapter: send succeeds, the next recv raises ConnectionRefusedError"""
    o = env.obs
    dead = env.dead_addr(socket.SOCK_DGRAM)
    s = env.udp_socket()
    s.connect(dead)
    ad = await env.backend.wrap_connected_datagram_socket(s)
    await o.acall("send", ad.send(b"ping"))
    await o.acall("recv", ad.recv(), timeout=0.5)
    await o.acall("recv again", ad.recv(), timeout=0.1)
    await o.acall("send again", ad.send(b"ping2"))
    await o.acall("recv", ad.recv(), timeout=0.5)
    await o.acall("aclose", ad.aclose())
    await o.acall("recv after aclose", ad.recv(), timeout=0.1)
    o.add("fileno", s.fileno())


def s10a_sync_udp_boundaries(env: Env) -> None:
    """(10) datagram boundaries on the blocking transport: empty datagram, datagram larger than the receive buffer
    (silently truncated, the rest is dropped), order preserved, one datagram per recv"""
    from easynetwork.lowlevel.api_sync.transports.socket import SocketDatagramTransport

    o = env.obs
    a = env.udp_socket()
    b = env.udp_socket()
    a.connect(b.getsockname())
    b.connect(a.getsockname())
    tr = SocketDatagramTransport(a, math.inf, max_datagram_size=16, selector_factory=env.selector_factory)
    for d in (b"one", b"", b"0123456789abcdefXXXXXXXX", b"last"):
        b.send(d)
    env.settle()
    for i in range(4):
        o.call(f"recv {i}", tr.recv, 0.5)
    o.call("recv 4 (nothing left)", tr.recv, 0.05)
    o.call("recv t=0", tr.recv, 0)
    o.call("send empty", tr.send, b"", 0.5)
    o.call("send", tr.send, b"payload", 0.5)
    env.settle()
    o.call("peer recvfrom", lambda: b.recvfrom(100)[0])
    o.call("peer recvfrom", lambda: b.recvfrom(100)[0])
    o.call("peer recvfrom (nothing left)", lambda: b.recvfrom(100)[0])
    # a third socket writes to a CONNECTED socket: filtered by the kernel
    c = env.udp_socket()
    c.sendto(b"intruder", a.getsockname())
    env.settle()
    o.call("datagram from a foreign address", tr.recv, 0.05)
    tr.close()
    o.add("fileno", a.fileno())


async def s10b_async_udp_boundaries(env: Env) -> None:
    """(10) asyncio datagram adapter: boundaries, empty datagram received; sending an empty payload (known finding D10:
    CPython 3.12 sendto() returns early, nothing is sent - same code on both sides, must agree)"""
    o = env.obs
    a = env.udp_socket()
    b = env.udp_socket()
    a.connect(b.getsockname())
    b.connect(a.getsockname())
    ad = await env.backend.wrap_connected_datagram_socket(a)
    for d in (b"one", b"", b"x" * 3000, b"last"):
        b.send(d)
    for i in range(4):
        await o.acall(f"recv {i}", ad.recv(), timeout=0.5)
    await o.acall("recv 4 (nothing left)", ad.recv(), timeout=0.1)
    await o.acall("send", ad.send(b"payload"))
    await o.acall("send empty", ad.send(b""))
    await o.acall("send", ad.send(b"after"))
    await env.asettle()
    got = []
    while True:
        try:
            got.append(b.recvfrom(100)[0])
        except BlockingIOError:
            break
    o.add("peer got", got)
    await o.acall("aclose", ad.aclose())


def s11_after_close(env: Env) -> None:
    """(11) fileno / getsockname / getpeername / I/O after close; getpeername on a connection that was reset"""
    from easynetwork.clients.tcp import TCPNetworkClient
    from easynetwork.lowlevel.socket import INETSocketAttribute

    o = env.obs
    lib, peer = env.stream_pair(tcp=True)
    tr = _stream_transport(env, lib)
    o.add("sockname is (host, port>0)", [lib.getsockname()[0], lib.getsockname()[1] > 0])
    o.add("peername == peer's sockname", lib.getpeername() == peer.sock.getsockname())
    o.add("extra peername == getpeername", tuple(tr.extra(INETSocketAttribute.peername)) == tuple(lib.getpeername()))
    o.add("fileno >= 0", lib.fileno() >= 0)
    tr.close()
    o.add("fileno", lib.fileno())
    for name, fn in (
        ("getsockname", lib.getsockname),
        ("getpeername", lib.getpeername),
        ("recv", lambda: lib.recv(1)),
        ("send", lambda: lib.send(b"x")),
        ("setblocking", lambda: lib.setblocking(False)),
        ("getsockopt SO_ERROR", lambda: lib.getsockopt(socket.SOL_SOCKET, socket.SO_ERROR)),
        ("shutdown", lambda: lib.shutdown(socket.SHUT_RDWR)),
        ("close again", lib.close),
        ("extra sockname", lambda: tr.extra(INETSocketAttribute.sockname)),
        ("extra peername", lambda: tr.extra(INETSocketAttribute.peername)),
    ):
        o.call(f"closed: {name}", fn)
    o.add("peer sees", env.peer_state(peer))

    # high-level client over a connection the peer resets
    lib, peer = env.stream_pair(tcp=True)
    c = TCPNetworkClient(lib, _line_protocol())
    remote = tuple(peer.sock.getsockname())[:2]
    o.add("client remote == peer", tuple(c.get_remote_address())[:2] == remote)
    peer.abort()
    env.settle()
    o.call("reset: raw getpeername", lambda: "the address" if lib.getpeername() else None)
    o.call("reset: raw getsockname is still there", lambda: lib.getsockname()[1] > 0)
    o.call("reset: client.get_remote_address (cached)", lambda: tuple(c.get_remote_address())[:2] == remote)
    o.call("reset: recv_packet", c.recv_packet, timeout=0.5)
    o.call("reset: send_packet", c.send_packet, "x", timeout=0.5)
    o.call("reset: close", c.close)
    o.call("closed client: get_local_address", c.get_local_address)
    o.call("closed client: recv_packet", c.recv_packet, timeout=0)
    o.add("fileno", lib.fileno())

    # unconnected and listening sockets
    l = env.listener()
    o.call("listener: getpeername", l.getpeername)
    o.call("listener: accept (nothing pending)", l.accept)
    p = env.connect_peer(l.getsockname())
    p.abort()
    env.settle()
    try:
        conn, addr = l.accept()
    except OSError as e:
        o.add("accept of a connection reset in the queue", {"raised": exc_desc(e)})
    else:
        o.add("accept of a connection reset in the queue", "returns a socket")
        o.add("accept address present", addr is not None)
        o.call("reset in queue: getpeername", lambda: "the address" if conn.getpeername() else None)
        o.call("reset in queue: getsockname == listener's", lambda: conn.getsockname() == l.getsockname())
        conn.setblocking(False)
        o.call("reset in queue: recv", lambda: conn.recv(10))
        o.call("reset in queue: recv again", lambda: conn.recv(10))
        o.call("reset in queue: send", lambda: conn.send(b"x"))
        conn.close()
    l.close()
    o.call("closed listener: accept", l.accept)


async def s12_connect(env: Env) -> None:
    """(12) backend.create_tcp_connection to a closed port -> error type; and to a listening raw socket -> works"""
    o = env.obs
    dead = env.dead_addr(socket.SOCK_STREAM)
    await o.acall("create_tcp_connection to a closed port", env.backend.create_tcp_connection(dead[0], dead[1]))
    from easynetwork.clients.async_tcp import AsyncTCPNetworkClient

    c = AsyncTCPNetworkClient((dead[0], dead[1]), _line_protocol(), env.backend)
    await o.acall("AsyncTCPNetworkClient.wait_connected to a closed port", c.wait_connected())
    await o.acall("client aclose", c.aclose())

    l = env.listener()
    with spy_stream_protocol(o):
        tr = await o.acall("create_tcp_connection to a listener", env.backend.create_tcp_connection(*l.getsockname()[:2]))
        if tr is None:
            return
        await env.asettle()
        conn, addr = l.accept()
        conn.setblocking(False)
        from easynetwork.lowlevel.socket import INETSocketAttribute

        o.add("peername == listener address", tuple(tr.extra(INETSocketAttribute.peername))[:2] == tuple(l.getsockname())[:2])
        o.add("accepted address == transport sockname", tuple(addr)[:2] == tuple(tr.extra(INETSocketAttribute.sockname))[:2])
        p = PeerCtl(env, conn)
        await o.acall("send_all", tr.send_all(b"ping"))
        o.add("peer got", await env.aread(p, 4))
        p.send(b"pong")
        await o.acall("recv", tr.recv(100))
        o.add("step: listener side closes")
        p.close()
        await o.acall("recv -> EOF", tr.recv(100))
        o.add("step: aclose")
        await o.acall("aclose", tr.aclose())
    l.close()


async def s13_raw_asyncio_protocol(env: Env) -> None:
    """asyncio's own selector transport on the stub (no EasyNetwork): callback order of a plain Protocol for data, EOF
    (eof_received -> True keeps the transport open), pause_writing / resume_writing, close; and eof_received -> False"""
    o = env.obs
    loop = asyncio.get_running_loop()

    class Rec(asyncio.Protocol):
        def __init__(self, tag: str, keep_open: bool):
            self.tag = tag
            self.keep_open = keep_open
            self.data = bytearray()

        def flush(self) -> None:
            if self.data:
                o.add(f"{self.tag} data_received (concatenated)", bytes(self.data))
                self.data.clear()

        def connection_made(self, transport: Any) -> None:
            o.add(f"{self.tag} connection_made")

        def data_received(self, data: bytes) -> None:
            self.data += data  # fragmentation may differ: compare the concatenation between two other events

        def eof_received(self) -> bool:
            self.flush()
            o.add(f"{self.tag} eof_received")
            return self.keep_open

        def pause_writing(self) -> None:
            self.flush()
            o.add(f"{self.tag} pause_writing")

        def resume_writing(self) -> None:
            self.flush()
            o.add(f"{self.tag} resume_writing")

        def connection_lost(self, exc: Any) -> None:
            self.flush()
            o.add(f"{self.tag} connection_lost", None if exc is None else exc_desc(exc))

    lib, peer = env.stream_pair(sndbuf=8192)
    tr, pr = await loop.create_connection(lambda: Rec("A", True), sock=lib)
    peer.send(b"abc")
    await env.asettle()
    peer.send(b"def")
    await env.asettle()
    o.add("step: peer half-closes")
    peer.shutdown_wr()
    await env.asettle()
    pr.flush()
    o.add("step: write more than fits")
    big = b"w" * (4 << 20)
    tr.write(big)
    await env.asettle()
    o.add("write buffer not empty", tr.get_write_buffer_size() > 0)
    o.add("step: peer reads")
    env.start_drain(peer)
    o.add("peer has everything", await env.await_(lambda: peer.total == len(big), 10.0))
    await env.asettle()
    o.add("step: close")
    tr.close()
    await env.asettle()
    o.add("peer sees", await env.apeer_state(peer))

    lib, peer = env.stream_pair()
    tr, pr = await loop.create_connection(lambda: Rec("B", False), sock=lib)
    peer.send(b"xyz")
    peer.shutdown_wr()
    await env.asettle()
    await env.asettle()
    o.add("B transport closing", tr.is_closing())
    o.add("fileno", lib.fileno())
    o.add("peer sees", await env.apeer_state(peer))

    lib, peer = env.stream_pair(tcp=True)
    tr, pr = await loop.create_connection(lambda: Rec("C", True), sock=lib)
    o.add("step: peer resets")
    peer.abort()
    await env.asettle()
    o.add("C transport closing", tr.is_closing())
    o.add("fileno", lib.fileno())


def s14_selector_readiness(env: Env) -> None:
    """what the selector reports (select(0)) for the socket states every other scenario passes through"""
    o = env.obs
    make = env.selector_factory or selectors.PollSelector

    def ready(sock: Any) -> str:
        with make() as sel:
            sel.register(sock, selectors.EVENT_READ | selectors.EVENT_WRITE)
            ev = 0
            for _key, e in sel.select(0):
                ev |= e
        return ("R" if ev & selectors.EVENT_READ else "-") + ("W" if ev & selectors.EVENT_WRITE else "-")

    lib, peer = env.stream_pair(tcp=True, sndbuf=8192)
    lib.setblocking(False)
    o.add("fresh connection", ready(lib))
    peer.send(b"x")
    env.settle()
    o.add("data pending", ready(lib))
    lib.recv(10)
    o.add("data consumed", ready(lib))
    try:
        for _ in range(100_000):
            lib.send(b"f" * 4096)
    except BlockingIOError:
        pass
    o.add("send buffer full", ready(lib))
    env.start_drain(peer)
    o.add("writable again after the peer read everything", env.wait(lambda: ready(lib) == "-W"))
    env.stop_drain(peer)
    peer.shutdown_wr()
    env.settle()
    o.add("peer half-closed", ready(lib))
    o.add("recv", lib.recv(10))
    o.add("after reading EOF (level-triggered)", ready(lib))
    lib.shutdown(socket.SHUT_WR)
    env.settle()
    lib.close()

    lib, peer = env.stream_pair(tcp=True)
    lib.setblocking(False)
    peer.abort()
    env.settle()
    o.add("peer reset", ready(lib))
    lib.close()

    l = env.listener()
    o.add("listener, nothing pending", ready(l))
    p = env.connect_peer(l.getsockname())
    env.settle()
    o.add("listener, connection pending", ready(l))
    conn, _ = l.accept()
    o.add("listener after accept", ready(l))
    conn.close()
    p.close()
    l.close()

    u = env.udp_socket()
    o.add("udp idle", ready(u))
    v = env.udp_socket()
    v.sendto(b"", u.getsockname())
    env.settle()
    o.add("udp, empty datagram pending", ready(u))
    u.recvfrom(10)
    o.add("udp after reading it", ready(u))
    u.connect(env.dead_addr(socket.SOCK_DGRAM))
    u.send(b"x")
    env.settle()
    o.add("udp, pending ICMP error", ready(u))
    o.call("udp recv", lambda: u.recv(10))
    o.add("udp after the error was read", ready(u))
    u.close()
    v.close()


async def s15_async_client_roundtrip(env: Env) -> None:
    """AsyncTCPNetworkClient against a raw listening socket: connect, packets both ways, peer EOF -> ConnectionAbortedError"""
    from easynetwork.clients.async_tcp import AsyncTCPNetworkClient

    o = env.obs
    l = env.listener()
    host, port = l.getsockname()[:2]
    with spy_stream_protocol(o):
        c = AsyncTCPNetworkClient((host, port), _line_protocol(), env.backend)
        await o.acall("wait_connected", c.wait_connected())
        o.add("is_connected", c.is_connected())
        await env.asettle()
        conn, _addr = l.accept()
        conn.setblocking(False)
        p = PeerCtl(env, conn)
        o.add("remote address is the listener", tuple(c.get_remote_address())[:2] == (host, port))
        await o.acall("send_packet", c.send_packet("hello"))
        o.add("peer got", await env.aread(p, 6))
        p.send(b"wor")
        await env.asettle()
        p.send(b"ld\nnext\npart")
        await o.acall("recv_packet", c.recv_packet())
        await o.acall("recv_packet", c.recv_packet())
        o.add("step: peer closes inside a packet")
        p.close()
        await o.acall("recv_packet at EOF", c.recv_packet())
        await o.acall("recv_packet again", c.recv_packet())
        o.add("step: aclose")
        await o.acall("aclose", c.aclose())
        await o.acall("send_packet after aclose", c.send_packet("x"))
    l.close()


async def s16_udp_server(env: Env) -> None:
    """datagram listener: AsyncUDPNetworkServer answers two clients (per-client order kept), survives a client whose port
    is closed when the answer is sent (ICMP error on an unconnected socket is not reported), shuts down"""
    from easynetwork.servers.async_udp import AsyncUDPNetworkServer
    from easynetwork.servers.handlers import AsyncDatagramRequestHandler

    o = env.obs
    ev: list[Any] = []

    class H(AsyncDatagramRequestHandler):  # type: ignore[type-arg]
        async def handle(self, client: Any):  # type: ignore[no-untyped-def]
            req = yield
            ev.append(["request", req])
            await client.send_packet(req.upper())

    async def recv_all(sock: Any, n: int) -> list[bytes]:
        got: list[bytes] = []

        def pump() -> bool:
            while True:
                try:
                    got.append(sock.recvfrom(1000)[0])
                except (BlockingIOError, ConnectionRefusedError):
                    break
            return len(got) >= n

        await env.await_(pump)
        return got

    async with AsyncUDPNetworkServer("127.0.0.1", 0, _dgram_protocol(), H(), backend=env.backend) as srv:
        st = asyncio.ensure_future(srv.serve_forever())
        o.add("serving", await env.await_(lambda: bool(srv.get_addresses())))
        a = srv.get_addresses()[0]
        addr = (a.host, a.port)
        c1 = env.udp_socket()
        c2 = env.udp_socket()
        c1.sendto(b"one", addr)
        c1.sendto(b"two", addr)
        c2.sendto(b"other", addr)
        o.add("client 1 got", await recv_all(c1, 2))
        o.add("client 2 got", await recv_all(c2, 1))
        o.add("requests (per client order)", [[e for e in ev if e[1] in ("one", "two")], [e for e in ev if e[1] == "other"]])
        ev.clear()
        c3 = env.udp_socket()
        c3.sendto(b"gone", addr)
        c3.close()  # the answer goes to a closed port
        await env.asettle()
        await env.asettle()
        c1.sendto(b"still", addr)
        o.add("client 1 got", await recv_all(c1, 1))
        o.add("requests", sorted(e[1] for e in ev))
        await o.acall("shutdown", srv.shutdown())
        await asyncio.wait([st], timeout=STEP)
        o.add("serve_forever ended", st.done())


def _norm_first_failing_write(obs: list) -> list:
    """s07 in the simulator's DEFAULT configuration: which write is the first to fail is a documented deviation (see
    _FIRST_WRITE_WHY); everything else must agree.  Reduced to: the index of the first failing write, its error, the
    outcome of the write after it, the callbacks in order, and the untouched rest."""
    writes = [(l, v) for l, v in obs if l.startswith("send_all ") and "after the peer closed" in l]
    failing = [i for i, (_l, v) in enumerate(writes) if v is not None]
    k = failing[0] if failing else None
    out = [[l, v] for l, v in obs if not (l.startswith("step: write") or l.startswith("cb ") or (l.startswith("send_all ") and "after the peer closed" in l))]
    out.append(["first failing write", None if k is None else k + 1])
    out.append(["writes before it succeed", all(v is None for _l, v in writes[: k or 0])])
    out.append(["its error", None if k is None else writes[k][1]])
    out.append(["the write after it", None if k is None or k + 1 >= len(writes) else writes[k + 1][1]])
    out.append(["callbacks in order", [[l, v] for l, v in obs if l.startswith("cb ")]])
    return out


def _faithful_first_write(env: "SimEnv") -> None:
    env.net.first_write_after_fin_ok = True


def _faithful_getpeername(env: "SimEnv") -> None:
    env.net.getpeername_enotconn_after_reset = True


# ================================================================================================ registry
class Scenario:
    def __init__(
        self,
        fn: Callable[..., Any],
        norm: Callable[[list], list] | None = None,
        deviations: dict[str, dict] | None = None,
        sim_setup: Callable[["SimEnv"], None] | None = None,
        suffix: str = "",
    ):
        self.fn = fn
        self.name = fn.__name__ + suffix
        self.is_async = asyncio.iscoroutinefunction(fn)
        self.norm = norm
        self.deviations = deviations or {}
        self.sim_setup = sim_setup  # non-default simulator configuration (said in the scenario name)


# Documented deviations: label -> {"sim": value, "real": value, "why": text}.  Accepted only with exactly these values.
_FIRST_WRITE_WHY = (
    "after the peer's clean close() a real TCP stack ACCEPTS the first write (the peer answers with RST) and only later "
    "writes fail; SimSocket reports the dead peer on the first write (comment in SimSocket._send_stream: 'model directly as "
    "EPIPE/ECONNRESET').  Deliberate: a silently dropped write would make every 'what send_packet() reported as sent "
    "arrives' oracle (C04, C20) depend on kernel timing; the library-visible error class is the same, one write earlier. "
    "SimNet.first_write_after_fin_ok=True selects the faithful behaviour (verified by the next scenario)."
)

_GETPEERNAME_WHY = (
    "Linux: a TCP socket that received RST is in state CLOSE and getpeername() fails with ENOTCONN from then on, also for a "
    "connection reset while it sat in the accept queue (EasyNetwork then drops it before any handler hook runs).  SimSocket "
    "keeps answering the peer address by default because harness callbacks (props/c15.py) identify connections by "
    "getpeername() at any time; C17 injects this ENOTCONN explicitly through a fault plan ('getpeername' set-up fault).  "
    "SimNet.getpeername_enotconn_after_reset=True selects the faithful behaviour (verified by the next scenario)."
)
_ENOTCONN = {"raised": ["OSError", "ENOTCONN"]}

SCENARIOS: list[Scenario] = [
    Scenario(s01_sync_echo),
    Scenario(s02_sync_recv_timeout_zero),
    Scenario(s03_half_close),
    Scenario(s04a_peer_close_unread_recv_first),
    Scenario(s04b_peer_close_unread_send_first),
    Scenario(s04c_peer_close_unread_data_first),
    Scenario(s04d_send_eof_after_reset),
    Scenario(s05a_sync_full_pipe),
    Scenario(s05b_async_full_pipe),
    Scenario(s06a_async_adapter_sequences),
    Scenario(s06b_async_aclose_with_unsent_data),
    Scenario(s07_async_write_after_peer_closed, norm=_norm_first_failing_write, deviations={"first failing write": {"sim": 1, "real": 2, "why": _FIRST_WRITE_WHY}}),
    Scenario(s07_async_write_after_peer_closed, sim_setup=_faithful_first_write, suffix="[SimNet.first_write_after_fin_ok=True]"),
    Scenario(s07b_async_peer_resets),
    Scenario(s08_server_accept, deviations={"events for a connection reset before accept": {"sim": ["on_connection", "on_disconnection"], "real": [], "why": _GETPEERNAME_WHY}}),
    Scenario(s08_server_accept, sim_setup=_faithful_getpeername, suffix="[SimNet.getpeername_enotconn_after_reset=True]"),
    Scenario(s09a_sync_udp_closed_port, norm=_norm_refused),
    Scenario(s09b_async_udp_closed_port),
    Scenario(s10a_sync_udp_boundaries),
    Scenario(s10b_async_udp_boundaries),
    Scenario(
        s11_after_close,
        deviations={
            "reset: raw getpeername": {"sim": "the address", "real": _ENOTCONN, "why": _GETPEERNAME_WHY},
            "reset: client.get_remote_address (cached)": {"sim": True, "real": {"raised": ["TypedAttributeLookupError"]}, "why": _GETPEERNAME_WHY},
            "reset in queue: getpeername": {"sim": "the address", "real": _ENOTCONN, "why": _GETPEERNAME_WHY},
        },
    ),
    Scenario(s11_after_close, sim_setup=_faithful_getpeername, suffix="[SimNet.getpeername_enotconn_after_reset=True]"),
    Scenario(s12_connect),
    Scenario(s13_raw_asyncio_protocol),
    Scenario(s14_selector_readiness),
    Scenario(s15_async_client_roundtrip),
    Scenario(s16_udp_server),
]


# ================================================================================================ driver
def _run_side(sc: Scenario, env: Env) -> tuple[list, str | None]:
    try:
        obs = env.run(sc)
        err = None
    except BaseException as e:  # noqa: BLE001 - a crashed side is a mismatch, never a crash of the self-test
        if isinstance(e, KeyboardInterrupt):
            raise
        obs = env.obs
        err = "".join(traceback.format_exception_only(type(e), e)).strip() + " @ " + (traceback.format_tb(e.__traceback__)[-1].strip().replace("\n", " | ") if e.__traceback__ else "?")
    out = [list(x) for x in obs]
    if sc.norm is not None:
        out = sc.norm(out)
    return out, err


def compare(sc: Scenario, sim: list, real: list) -> tuple[list[dict], list[dict]]:
    """-> (mismatches, documented deviations)"""
    mism: list[dict] = []
    devs: list[dict] = []
    if [x[0] for x in sim] != [x[0] for x in real]:
        # different label sequences (callbacks at other places, a side stopped early): report the first difference
        i = next((k for k, (a, b) in enumerate(zip(sim, real)) if a[0] != b[0]), min(len(sim), len(real)))
        mism.append({"scenario": sc.name, "at": i, "what": "observation sequences differ", "sim": sim[i : i + 3], "real": real[i : i + 3]})
        return mism, devs
    for i, (a, b) in enumerate(zip(sim, real)):
        if a[1] == b[1]:
            continue
        d = sc.deviations.get(a[0])
        if d is not None and _j(d["sim"]) == a[1] and _j(d["real"]) == b[1]:
            devs.append({"scenario": sc.name, "label": a[0], "sim": a[1], "real": b[1], "why": d["why"]})
        else:
            mism.append({"scenario": sc.name, "at": i, "label": a[0], "sim": a[1], "real": b[1]})
    return mism, devs


def _attempt(sc: Scenario) -> tuple[list[dict], list[dict], list, list]:
    sim_env = SimEnv()
    if sc.sim_setup is not None:
        sc.sim_setup(sim_env)
    sim, sim_err = _run_side(sc, sim_env)
    real, real_err = _run_side(sc, RealEnv())
    mm, dv = compare(sc, sim, real)
    for side, err in (("sim", sim_err), ("real", real_err)):
        if err is not None:
            mm.append({"scenario": sc.name, "what": f"{side} side crashed", "error": err})
    return mm, dv, sim, real


def run(tier: str = "quick", only: str | None = None) -> tuple[bool, dict]:
    """-> (ok, {"scenarios", "matched", "documented_deviations", "mismatches", ...}); prints one line per scenario.
    tier "thorough" runs the whole set three times (every round must match)."""
    import os

    only = only or os.environ.get("CONFORMANCE_ONLY") or None  # substring of a scenario name (debugging)
    warnings.simplefilter("ignore")
    prev_disable = logging.root.manager.disable
    logging.disable(logging.CRITICAL)
    t_start = time.monotonic()
    matched = 0
    mismatches: list[dict] = []
    deviations: list[dict] = []
    retried: list[str] = []
    n = 0
    rounds = 3 if tier == "thorough" else 1
    try:
        for sc in [x for _ in range(rounds) for x in SCENARIOS]:
            if only and only not in sc.name:
                continue
            n += 1
            t0 = time.monotonic()
            if t0 - t_start > TOTAL_LIMIT:
                mismatches.append({"scenario": sc.name, "what": f"not run: the self-test used more than {TOTAL_LIMIT} s"})
                print(f"conformance {sc.name}: NOT RUN (time limit)", flush=True)
                continue
            for k in range(ATTEMPTS):
                mm, dv, sim, real = _attempt(sc)
                if not mm or time.monotonic() - t_start > TOTAL_LIMIT:
                    break
                if k + 1 < ATTEMPTS:
                    retried.append(sc.name)
            for d in dv:
                if d not in deviations:
                    deviations.append(d)
            dt = time.monotonic() - t0
            if mm:
                mismatches += mm
                print(f"conformance {sc.name}: MISMATCH ({len(mm)}) [{len(sim)} sim / {len(real)} real observations, {dt:.2f}s]", flush=True)
                for m in mm:
                    print("   ", m, flush=True)
                print("    sim :", sim, flush=True)
                print("    real:", real, flush=True)
            else:
                matched += 1
                extra = f", {len(dv)} documented deviation(s)" if dv else ""
                print(f"conformance {sc.name}: match ({len(sim)} observations{extra}, {dt:.2f}s)", flush=True)
    finally:
        logging.disable(prev_disable)
    res = {
        "scenarios": n,
        "matched": matched,
        "documented_deviations": deviations,
        "mismatches": mismatches,
        "retried_after_a_transient_mismatch": retried,
        "wall_s": round(time.monotonic() - t_start, 1),
    }
    return not mismatches, res
