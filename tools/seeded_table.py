#!/venv/bin/python
"""Add the human summary (what it breaks / what it needs to manifest) to every /verif/seeded/<id>/meta.json and print
the markdown table used in DESIGN.md §9.5."""
import glob
import json
import os

VERIF = os.path.dirname(os.path.dirname(os.path.abspath(__file__)))

# one line each, condensed from the authors' notes (agent_notes.md in each directory has the full text)
SUMMARY = {
    "C01-A": ("_buffered_readuntil: find() loses its `buflen` bound → stale bytes of earlier packets in the reused buffer are searched", "buffer-filling path; a longer packet followed by a shorter one with a read boundary inside the shorter one"),
    "C01-B": ("GeneratorStreamReader.read_until: `buflen - offset >= seplen` guard dropped → negative rescan offset skips separators", "copy path; separator of ≥ 3 bytes; first fragment of a packet ≤ seplen−2 bytes"),
    "C02-A": ("read_until guard dropped (as C01-B)", "separator ≥ 3 bytes and a frame whose first piece is exactly 1 byte"),
    "C02-B": ("_buffered_readuntil find() unbounded (as C01-A)", "buffered path, frame split over two reads after a longer earlier frame"),
    "C03-A": ("receive_data_into(): EOF fast path returns 0 without re-checking buffered bytes", "bytes and FIN both read by the loop while no recv_packet() is pending"),
    "C03-B": ("get_buffer(): `not waiter.done()` re-check dropped (half of the D5 fix)", "waiter cancelled before the read event in the same loop iteration (iter_received_packets(timeout=0))"),
    "C04-A": ("sendmsg path: remaining timeout not carried across partial writes", "finite timeout + ≥ 2 would-block waits separated by short writes"),
    "C04-B": ("WriteFlowControl.drain(): connection-lost check before the closing-yield", "the write itself hits ECONNRESET (loss noticed by the write, same loop step)"),
    "C05-A": ("asyncio DatagramEndpoint.recvfrom(): pending-exception check after every queue get → a dequeued datagram is thrown away", "a queued datagram AND an error_received() both before recv_packet()"),
    "C05-B": ("StringLineSerializer.deserialize: removesuffix loop → rstrip(separator) (strips a byte set)", "newline=CRLF and a packet ending in bare CR / LF / LF CR, one-shot mode"),
    "C06-A": ("StreamDataConsumer.next: consumer reset only on StopIteration, not on parse error", "malformed frame split over ≥ 2 reads, then another next()"),
    "C06-B": ("JSONSerializer: merged error handlers read exc.pos on a plain ValueError", "debug=True and an integer literal > 4300 digits"),
    "C07-A": ("FileBasedPacketSerializer: fail-fast limit check right after buffer.write()", "a read stops inside a frame, the next read brings the rest plus pipelined small frames (partial+read > limit)"),
    "C07-B": ("raw JSON: trailing-whitespace skip before the size check", "small document + enough legal whitespace in the same read"),
    "C08-A": ("recv_into() no longer passes wait_for_flush=False (half of the D9 fix)", "recv_into reader + two writers (one back-pressured holding the lock, one with cipher-text pending) + peer that writes before reading"),
    "C08-B": ("__flush_write_bio(): write BIO read into a local before waiting for the send lock", "a send_all() cancelled exactly while it waits behind another writer → its record is dropped, next record fails authentication"),
    "C09-A": ("recv/recv_into: ragged EOF treated as clean EOF once aclose() has started", "a reader blocked in recv() while another task runs aclose(), peer hangs up without close_notify"),
    "C09-B": ("recv/recv_into fast path `if read_bio.eof: return b''`", "second read after a truncation"),
    "C10-A": ("get_buffer(): `not waiter.done()` re-check dropped", "recv_into cancelled just before the read event in the same iteration"),
    "C10-B": ("request receivers: cancel_shielded_coro_yield → coro_yield after a request was popped", "pipelined requests in one chunk + handler yielding an already expired timeout"),
    "C11-A": ("lock_with_timeout(): recomputed timeout not assigned", "lock contention that ends before T followed by an operation that itself waits"),
    "C11-B": ("sync receive loops: only short reads recompute the timeout", "incomplete packet larger than max_recv_size arriving in buffer-filling bursts after stalls"),
    "C12-A": ("FairLock.acquire(): `if self._locked` instead of `_locked or _waiters`", "a queued waiter + a sender that sends twice in a row + a transport that suspends mid-send"),
    "C12-B": ("lock_with_timeout(): lock pushed on the exit stack before it is acquired → a timed-out caller releases somebody else's lock", "sender stuck mid-packet, a send that times out on the lock, then a third sender"),
    "C13-A": ("_check_pending_cancellation looks at the innermost scope only", "three nested scopes, uncancelled middle one, inner cancellation postponed by a shield, outer cancelled in the same iteration"),
    "C13-B": ("__exit__: take-back loop only when the body ended normally", "scope's cancel swallowed by a shield and the body leaving with a non-cancellation exception"),
    "C14-A": ("TLS aclose: forceful-close handler moved outside the shutdown-timeout scope", "peer neither answers close_notify nor closes within shutdown_timeout"),
    "C14-B": ("_try_graceful_close: except BaseException → except Exception", "cancellation while the send half's close is suspended"),
    "C15-A": ("_BufferedRequestReceiver.next: shielded yield → plain yield", "BufferedStreamProtocol + ≥ 2 requests in one chunk + handler yielding timeout 0"),
    "C15-B": ("on_connection generator driver ignores the timeout of later yields", "on_connection generator with ≥ 2 yields whose timeouts differ"),
    "C16-A": ("__client_coroutine: finally → except BaseException/else (no respawn after an exception)", "handler generator ending with CancelledError + datagrams queued behind it"),
    "C16-B": ("per-datagram guard forgets the TASK_PENDING state", "datagram handled between 'old task finished with non-empty queue' and 'respawned task started'"),
    "C17-A": ("", ""),
    "C17-B": ("", ""),
    "C18-A": ("standalone serve_forever: is_shutdown published before the lock is re-acquired and the portal reset", "restart from another thread right after shutdown(), old thread pre-empted between the two tear-down callbacks"),
    "C18-B": ("async shutdown() returns early when the run scope is None", "a shutdown() issued during a tear-down that takes time"),
    "C19-A": ("_staggered_race_connection_impl: except BaseException → except Exception (winner not closed on cancel)", "cancel issued before the winning attempt's task step, caller resumed after it in the same loop pass"),
    "C19-B": ("_create_connection_impl: 'no matching local address' no longer closes the socket", "local_address set + a remote address whose family is missing from the local addresses"),
    "C20-A": ("drain(): connection-lost check before the closing-yield (same edit as C04-B)", "the connection dies during the send itself"),
    "C20-B": ("waiter done-callback: remove → popleft", "≥ 2 suspended senders, cancellation of a non-head one, then resume or connection loss"),
}


def main() -> None:
    rows = []
    for mp in sorted(glob.glob(os.path.join(VERIF, "seeded", "*", "meta.json"))):
        m = json.load(open(mp))
        sid = m["id"]
        breaks, needs = SUMMARY.get(sid, ("", ""))
        if breaks:
            m["breaks"] = breaks
            m["needs_to_manifest"] = needs
        json.dump(m, open(mp, "w"), indent=1)
        keys = ", ".join(k.split("/", 1)[1] if "/" in k else k for k in m.get("check_keys", [])[:2])
        rows.append(f"| {sid} | {m['property']} | {m.get('breaks', '')} | {m.get('needs_to_manifest', '')} | {m.get('result')} ({m.get('check_wall_s', '?')} s){': ' + keys if keys else ''} |")
    print("| id | property | change | needs | our check |")
    print("|---|---|---|---|---|")
    print("\n".join(rows))


if __name__ == "__main__":
    main()
