#!/venv/bin/python
"""Add the human summary (what it breaks / what it needs to manifest) to every /verif/seeded/<id>/meta.json and print
the markdown table used in DESIGN.md §9.5."""
import glob
import json
import os

VERIF = os.path.dirname(os.path.dirname(os.path.abspath(__file__)))

# one line each, condensed from the authors' notes (agent_notes.md in each directory has the full text)
SUMMARY = {
    "C01-A": ("_buffered_readuntil: find() loses its `buflen` bound → stale bytes of earlier packets in the reused buffer are searched", "buffer-filling path; a longer packet followed by a shorter one with a read boundary inside the shorter one"),
    "C01-B": ("GeneratorStreamReader.read_until: `buflen - offset >= seplen` guard dropped → negative rescan offset skips separators", "copy path; separator of ≥ 3 bytes; first fragment of a packet ≤ seplen−2 bytes"),
    "C02-A": ("read_until guard dropped (as C01-B)", "separator ≥ 3 bytes and a frame whose first piece is exactly 1 byte"),
    "C02-B": ("_buffered_readuntil find() unbounded (as C01-A)", "buffered path, frame split over two reads after a longer earlier frame"),
    "C03-A": ("receive_data_into(): EOF fast path returns 0 without re-checking buffered bytes", "bytes and FIN both read by the loop while no recv_packet() is pending"),
    "C03-B": ("get_buffer(): `not waiter.done()` re-check dropped (half of the D5 fix)", "waiter cancelled before the read event in the same loop iteration (iter_received_packets(timeout=0))"),
    "C04-A": ("sendmsg path: remaining timeout not carried across partial writes", "finite timeout + ≥ 2 would-block waits separated by short writes"),
    "C04-B": ("WriteFlowControl.drain(): connection-lost check before the closing-yield", "the write itself hits ECONNRESET (loss noticed by the write, same loop step)"),
    "C05-A": ("asyncio DatagramEndpoint.recvfrom(): pending-exception check after every queue get → a dequeued datagram is thrown away", "a queued datagram AND an error_received() both before recv_packet()"),
    "C05-B": ("StringLineSerializer.deserialize: removesuffix loop → rstrip(separator) (strips a byte set)", "newline=CRLF and a packet ending in bare CR / LF / LF CR, one-shot mode"),
    "C06-A": ("StreamDataConsumer.next: consumer reset only on StopIteration, not on parse error", "malformed frame split over ≥ 2 reads, then another next()"),
    "C06-B": ("JSONSerializer: merged error handlers read exc.pos on a plain ValueError", "debug=True and an integer literal > 4300 digits"),
    "C07-A": ("FileBasedPacketSerializer: fail-fast limit check right after buffer.write()", "a read stops inside a frame, the next read brings the rest plus pipelined small frames (partial+read > limit)"),
    "C07-B": ("raw JSON: trailing-whitespace skip before the size check", "small document + enough legal whitespace in the same read"),
    "C08-A": ("recv_into() no longer passes wait_for_flush=False (half of the D9 fix)", "recv_into reader + two writers (one back-pressured holding the lock, one with cipher-text pending) + peer that writes before reading"),
    "C08-B": ("__flush_write_bio(): write BIO read into a local before waiting for the send lock", "a send_all() cancelled exactly while it waits behind another writer → its record is dropped, next record fails authentication"),
    "C09-A": ("recv/recv_into: ragged EOF treated as clean EOF once aclose() has started", "a reader blocked in recv() while another task runs aclose(), peer hangs up without close_notify"),
    "C09-B": ("recv/recv_into fast path `if read_bio.eof: return b''`", "second read after a truncation"),
    "C10-A": ("get_buffer(): `not waiter.done()` re-check dropped", "recv_into cancelled just before the read event in the same iteration"),
    "C10-B": ("request receivers: cancel_shielded_coro_yield → coro_yield after a request was popped", "pipelined requests in one chunk + handler yielding an already expired timeout"),
    "C11-A": ("lock_with_timeout(): recomputed timeout not assigned", "lock contention that ends before T followed by an operation that itself waits"),
    "C11-B": ("sync receive loops: only short reads recompute the timeout", "incomplete packet larger than max_recv_size arriving in buffer-filling bursts after stalls"),
    "C12-A": ("FairLock.acquire(): `if self._locked` instead of `_locked or _waiters`", "a queued waiter + a sender that sends twice in a row + a transport that suspends mid-send"),
    "C12-B": ("lock_with_timeout(): lock pushed on the exit stack before it is acquired → a timed-out caller releases somebody else's lock", "sender stuck mid-packet, a send that times out on the lock, then a third sender"),
    "C13-A": ("_check_pending_cancellation looks at the innermost scope only", "three nested scopes, uncancelled middle one, inner cancellation postponed by a shield, outer cancelled in the same iteration"),
    "C13-B": ("__exit__: take-back loop only when the body ended normally", "scope's cancel swallowed by a shield and the body leaving with a non-cancellation exception"),
    "C14-A": ("TLS aclose: forceful-close handler moved outside the shutdown-timeout scope", "peer neither answers close_notify nor closes within shutdown_timeout"),
    "C14-B": ("_try_graceful_close: except BaseException → except Exception", "cancellation while the send half's close is suspended"),
    "C15-A": ("_BufferedRequestReceiver.next: shielded yield → plain yield", "BufferedStreamProtocol + ≥ 2 requests in one chunk + handler yielding timeout 0"),
    "C15-B": ("on_connection generator driver ignores the timeout of later yields", "on_connection generator with ≥ 2 yields whose timeouts differ"),
    "C16-A": ("__client_coroutine: finally → except BaseException/else (no respawn after an exception)", "handler generator ending with CancelledError + datagrams queued behind it"),
    "C16-B": ("per-datagram guard forgets the TASK_PENDING state", "datagram handled between 'old task finished with non-empty queue' and 'respawned task started'"),
    "C17-A": ("servers/misc.py: context managers swapped so on_disconnection() runs outside the per-client exception guard", "a non-ConnectionError raised by one client's on_disconnection()"),
    "C17-B": ("lowlevel/constants.py: lost comma drops ECONNABORTED and EPROTO from IGNORABLE_ACCEPT_ERRNOS", "accept() failing with ECONNABORTED/EPROTO (connection aborted in the listen queue)"),
    # ---- round 2 (authors were told the round-1 ideas and asked for different ones)
    "C01-C": ("raw JSON _escaped(): backslash-parity loop replaced by 'previous byte is a backslash and the one before is not'", "a string containing a backslash immediately followed by a quote (three backslashes before a quote), use_lines=False"),
    "C01-D": ("FixedSizePacketSerializer buffered path hands deserialize() a memoryview of the reused buffer", "a subclass returning its argument unchanged; packets compared after later traffic"),
    "C02-C": ("LimitOverrunError keeps the tail only if ALL of it is a separator prefix", "separator ≥ 3 bytes, oversized frame, read boundary inside the terminator"),
    "C02-D": ("raw JSON: skipped leading whitespace no longer stripped before the plain-value phase", "plain-value frame (5, true) and a read boundary between the previous frame and its trailing whitespace"),
    "C03-C": ("async endpoint receive(): 'packet already buffered' fast path becomes a checkpoint after the packet was taken out", "≥ 1 complete packet buffered and a cancellation/timeout on that call (iter_received_packets(timeout=0))"),
    "C03-D": ("receive_data(): left-over compaction `[-unused:]` → `[unused:]`", "> max_recv_size accumulated in the transport buffer while no reader is pending"),
    "C04-C": ("TLS __write_all_to_ssl_object: popleft before write (same as C12-C)", "SSLObject.write() raising WantRead mid-packet — unreachable with real OpenSSL"),
    "C04-D": ("SelectorBaseTransport._retry: `if wait_time == inf` → `if timeout == inf` (no periodic retry with timeout=None)", "a would-block that resolves WITHOUT the descriptor becoming ready (e.g. a TLS client shared by two threads)"),
    "C06-C": ("_buffered_readuntil find() unbounded (as C01-A)", "buffered mode, an earlier longer frame, then a shorter frame cut at a segment boundary"),
    "C06-D": ("raw JSON raw_parse: `enclosure_counter <= 0` → `== 0`", "a frame whose first byte is a stray closing bracket: buffered until the limit instead of being reported"),
    "C07-C": ("raw JSON: leading whitespace exempted from the 'not complete' limit check but still accumulated", "a stream of only JSON whitespace before any document starts"),
    "C08-C": ("_retry_ssl_method: pending cipher-text flushed inside the receive lock", "a task parked in recv(), aclose() from another task, idle peer: close_notify never leaves until the shutdown timeout"),
    "C08-D": ("_retry_ssl_method: `except OSError` → `except BaseException` marks both BIOs EOF", "a recv() cancelled while it waits for cipher-text, then another read"),
    "C09-C": ("same edit as C08-C", "reader parked in recv() + aclose() from another task"),
    "C09-D": ("_retry_ssl_method success branch: flush condition loses `wait_for_flush or`", "peer's close_notify consumed, a send_all() in flight holding the send lock, aclose() from another task: close_notify (and data) lost"),
    "C10-C": ("_wait_for_data: `except BaseException` → `except Exception` (the rescue of bytes in the caller's buffer never runs)", "read event, then cancellation in the same iteration, then wake-up, recv_into path"),
    "C10-D": ("_retry_ssl_method success branch flushes on `pending` alone (half of the D9 fix)", "one writer blocked holding the send lock, a second queued with cipher-text pending, a receive under a timeout"),
    "C05-C": ("MAX_DATAGRAM_BUFSIZE 64 KiB → 65507 (IPv4 maximum)", "blocking path, IPv6, a datagram of 65508–65527 bytes"),
    "C05-D": ("SocketDatagramTransport.send_noblock swallows ConnectionRefusedError", "a pending ICMP error at send time: send_packet returns normally with zero datagrams"),
    "C11-C": ("sendmsg path: remaining timeout dropped across partial writes (same edit as C04-A)", "a plain-TCP send that blocks at least twice, each wait < T, sum > T"),
    "C11-D": ("TCPNetworkClient.recv_packet: endpoint.is_closed() → self.is_closed() (takes the send lock, no timeout)", "another thread stuck in send_packet holding the send lock while recv_packet(timeout=0|T) is called"),
    "C12-C": ("TLS __write_all_to_ssl_object pops the chunk before ssl.write(), re-queues only the unsent tail", "SSLObject.write() raising WantRead/WantWrite mid-packet — unreachable with real OpenSSL over a MemoryBIO after the handshake (author used a fake TLS engine)"),
    "C12-D": ("FairLock.acquire(): cancellation handler always wakes the next waiter", "owner suspended mid-packet, ≥ 2 queued senders, one queued sender cancelled"),
    "C13-C": ("__deliver_cancellation no longer skips task.cancel() while an undelivered request exists → overwrites a pending external cancel", "external task.cancel() after the awaited future is done but before the task resumes, scope cancelled in the same iteration"),
    "C13-D": ("__deliver_cancellation keeps a stale __cancel_handle when a delivery round gives up", "nested scopes both cancelled (inner first), two consecutive shielded checkpoints inside the inner scope, then the inner scope exits"),
    "C14-C": ("server-side client aclose(): force-close handler only around the inner aclose, not around the lock wait", "a sender holding the send lock, aclose() cancelled while waiting for it"),
    "C14-D": ("adapter aclose(): `await asyncio.shield(close_waiter)` → `await close_waiter`", "cancelled close with queued data (no abort), then any later aclose() raises a spurious CancelledError"),
    "C15-C": ("_RequestReceiver.next: timeout scope moved around each recv() (idle timeout)", "first chunk of a frame before the deadline, its end after — only removes a TimeoutError that should fire (the converse of the statement)"),
    "C15-D": ("servers/misc.py: handle() restart loop checks is_closing() only once", "handler closes the client and its generator then ends: handle() is started once more on the closed client"),
    "C16-C": ("datagram client loop: backlogged datagram popped, then a NON-shielded yield inside the timeout scope", "per-client backlog + handler polling with `yield 0`"),
    "C16-D": ("DatagramListenerProtocol.serve: shield dropped", "low-level history serve → cancel → serve again on the same listener"),
    "C17-C": ("async_tcp.py __client_initializer: `return` after `yield None` on the no-peer-address branch dropped", "peer RST before the client task starts (getpeername → ENOTCONN): TypeError reaches the server task group"),
    "C17-D": ("datagram client loop: pop_datagram_no_wait() moved into the else branch", "UDP handler ending before its first yield: the datagram is replayed to fresh generators (endless respawn)"),
    "C18-C": ("NetworkServerThread.run(): `finally: is_up_event.set()` → only on exception", "shutdown() from another thread landing in the start-up window: start() blocks forever"),
    "C18-D": ("standalone serve_forever(): 'already running' check (bootstrap lock) before the 'closed' check (close lock) → lock-order inversion with server_close()", "server_close() entering exactly between the two lock acquisitions of a concurrent serve_forever()"),
    "C19-C": ("AsyncTCPNetworkClient.__ensure_connected takes the one-shot connector before the awaited get()", "aclose() from another task while a connect attempt is pending: nothing is cancelled, the client connects after aclose() returned"),
    "C19-D": ("_interleave_addrinfos: zip_longest → zip drops the tail of the longer family", "mixed-family list with unequal counts and only a tail address reachable"),
    "C20-C": ("send_all_from_iterable: calls protocol.pause_writing() itself instead of re-applying the limits → resume_writing never delivered", "writelines path, peer stalls then reads again, no concurrent send_all in between"),
    "C20-D": ("adapter aclose(): abort guard `not close_waiter.done()` → `not transport.is_closing()` (never aborts)", "suspended sender, aclose() cancelled with a non-reading peer: the sender hangs"),
    "C18-A": ("standalone serve_forever: is_shutdown published before the lock is re-acquired and the portal reset", "restart from another thread right after shutdown(), old thread pre-empted between the two tear-down callbacks"),
    "C18-B": ("async shutdown() returns early when the run scope is None", "a shutdown() issued during a tear-down that takes time"),
    "C19-A": ("_staggered_race_connection_impl: except BaseException → except Exception (winner not closed on cancel)", "cancel issued before the winning attempt's task step, caller resumed after it in the same loop pass"),
    "C19-B": ("_create_connection_impl: 'no matching local address' no longer closes the socket", "local_address set + a remote address whose family is missing from the local addresses"),
    "C20-A": ("drain(): connection-lost check before the closing-yield (same edit as C04-B)", "the connection dies during the send itself"),
    "C20-B": ("waiter done-callback: remove → popleft", "≥ 2 suspended senders, cancellation of a non-head one, then resume or connection loss"),
    # ---- round 3 (E, F): emphasis on two cooperating sites, multi-step histories, two concurrent tasks/threads
    "C01-E": ("StringLineSerializer.create_deserializer_buffer() caches and returns one shared bytearray", "two connections sharing one protocol object, buffer-filling path, reads interleaved mid-line"),
    "C01-F": ("raw JSON _split_partial_document: limit compared with len(partial_document) instead of consumed", "a document still incomplete after one read, completed together with pipelined documents (accumulated > limit)"),
    "C02-E": ("BufferedStreamDataConsumer.next(): already_written reset moved into the outcome branches, parse-error branch left out", "a bad frame that is not the first frame of its read (taken from a saved remainder)"),
    "C02-F": ("_JSONParser._escaped(): backslash-parity scan → look at two previous bytes", "a string containing an escaped backslash followed by an escaped quote (3 backslashes before a quote)"),
    "C03-E": ("lock_with_timeout(): lock pushed on the exit stack above the acquisition attempts", "thread 1 blocked in recv_packet(), thread 2 polls recv_packet(timeout=0) and times out on the lock"),
    "C03-F": ("_wait_for_data() cancellation clean-up tests the attribute buffer_updated() already reset", "timeout/cancel delivered after the read event, before the waiting task wakes (same iteration)"),
    "C04-E": ("WriteFlowControl.resume_writing(): early return when nobody waits, before clearing the paused flag", "send suspended → abandoned by timeout → peer drains → next send never returns"),
    "C04-F": ("lock_with_timeout(): blocking-acquire path no longer pushes the lock → never released", "a second thread's send_packet(timeout=finite) while another thread is inside send_packet, then any later send"),
    "C05-E": ("asyncio datagram adapter recv(): unshielded coro_yield after recvfrom() dequeued the datagram", "a queued datagram and a cancellation (timeout 0, iter_received_packets default, task.cancel) landing on that yield"),
    "C05-F": ("PickleSerializer.deserialize: except Exception → a tuple of documented exceptions", "well-formed opcodes with ill-typed operands (TypeError, OverflowError)"),
    "C06-E": ("PickleSerializer.deserialize: except Exception → an explicit tuple of documented exceptions", "a corrupted length field (MemoryError / OverflowError from the unpickler)"),
    "C06-F": ("LimitOverrunError.__init__: the tail is kept only if the whole tail is a separator prefix", "separator ≥ 3 bytes, the limit-exceeding read stops inside the separator after an ordinary byte"),
    "C07-E": ("raw JSON plain-value loop scans only the new bytes; not-complete check uses len(chunk)", "a never-terminated number arriving in reads each ≤ limit"),
    "C07-F": ("raw JSON: quote-free chunk inside a string appended without the per-byte loop (skips the limit check)", "a never-closed string fed in quote-free reads"),
    "C08-E": ("_IncomingDataReader: the 256 KiB staging buffer comes from a cached module helper (shared by all transports)", "two TLS connections parked in a read, cipher-text for both in the same iteration"),
    "C08-F": ("send_all_from_iterable: encrypt-and-flush per chunk", "two concurrent multi-chunk writers, the first suspended by back-pressure"),
    "C09-E": ("aclose() skips the closing handshake once the peer's close_notify was read", "peer closes first, we read the clean EOF, answer, then aclose()"),
    "C09-F": ("AsyncTLSListener.serve() no longer forwards standard_compatible to wrap()", "listener configured with standard_compatible=False + a peer that ends without close_notify"),
    "C10-E": ("AsyncTLSStreamTransport.recv_into() drops wait_for_flush=False", "writer holding the send lock (peer not reading) + second writer queued + recv_into under a timeout + data arriving"),
    "C10-F": ("_save_external_buffer_data() no longer re-evaluates the read pause", "rescued chunk fills the 256 KiB internal buffer exactly: caller buffer ≥ 256 KiB, ≥ 256 KiB queued, cancel in the read-event iteration"),
    "C11-E": ("_retry: an idle retry-interval wake-up charges the nominal interval instead of the measured time", "many idle wake-ups each lasting longer than retry_interval (selector overshoot)"),
    "C11-F": ("AsyncClientRecvIterator.__anext__: budget only consumed on failure", "≥ 2 anext() calls each waiting < T, together > T"),
    "C12-E": ("TLS __flush_write_bio(): records read out of the write BIO before taking the send lock", "sender A suspended mid-flush, sender B queued then cancelled, later sender C"),
    "C12-F": ("FairLock._wake_up_first wakes the first waiter whose event is not set", "owner + ≥ 3 waiters, non-head waiter cancelled in the iteration of the release, new owner suspended mid-packet (library FairLock only)"),
    "C13-E": ("CancelScope.reschedule(): re-arm only when a timer already existed", "scope entered without deadline, finite deadline set afterwards"),
    "C13-F": ("ignore_cancellation: re-delivery of the muted cancellation moved to coroutine completion, per-step reset kept", "one-shot task.cancel() landing in a non-final step of a multi-step shielded coroutine"),
    "C14-E": ("TLS aclose(): closed-event set after the wrapped aclose() instead of in the exit stack", "first close times out / is cancelled, then a second aclose()"),
    "C14-F": ("server connection task: graceful transport.aclose() when the handler ends normally", "send cancelled by a handler timeout against a non-reading peer (unsent bytes buffered), handler then ends"),
    "C15-E": ("_ConnectedClientAPI.aclose(): closing flag not set on the cancelled-while-waiting-for-the-lock path", "background sender holding the send lock (peer not reading) + handler's aclose() cancelled + generator ends"),
    "C16-E": ("datagram server task-done callback: mark_done() below the queue-empty early exit", "handler timeout expires, generator ends with an empty queue, the TimeoutError (traceback → client data) stays referenced"),
    "C17-E": ("datagram server: one context copy per client instead of per task", "eager task factory + handler failing twice in a row before any await with datagrams queued"),
    "C17-F": ("serve().handler start condition: state is not TASK_RUNNING", "a datagram of the same client handled in the iteration between the old task's end and the respawned task's first step"),
    "C18-E": ("serve_forever() 'already running' test reads the run scope instead of the shutdown event", "second serve_forever() during a slow tear-down of the first"),
    "C18-F": ("standalone server_close(): lock scope narrowed", "another thread's serve_forever() between the two steps of server_close()"),
    "C19-E": ("staggered race: errors.clear() at the winner + `if errors: raise`", "an attempt failing after another has won, both delivered in the same loop pass"),
    "C19-F": ("local bind loop: for-else flattened → a successfully bound socket is closed when an earlier local address failed", "local_address resolving to ≥ 2 addresses of one family, an earlier one unbindable"),
    "C20-E": ("WriteFlowControl.drain(): also waits when other waiters are queued", "≥ 2 tasks suspended at once, peer reads, first woken task sends again at once"),
    "C20-F": ("WriteFlowControl.resume_writing(): early return when nobody waits (as C04-E)", "suspended sender cancelled → peer reads → next send"),
    # ---- round 4 (G, H; 10 properties): as round 3, plus non-default documented configurations
    "C03-G": ("TLS _retry_ssl_method want-read clean-up: except OSError → except BaseException (a cancelled receive writes EOF into both BIOs)", "ssl= client, one receive that timed out while the peer was idle, then any later receive"),
    "C03-H": ("_buffered_readuntil: find() loses its buflen bound (as C01-A)", "buffered protocol, an earlier longer packet, a read ending inside a frame"),
    "C04-G": ("TLS success branch: a writer skips its own flush when another flush is in progress", "two tasks sending on one TLS transport, the first suspended by back-pressure then cancelled: the second call returned but its records never leave"),
    "C04-H": ("asyncio adapter send_all(): writer_drain() only awaited when writing is paused (drain() is also where a lost connection is reported)", "TLS (the only user of send_all) + peer reset, then further sends: all 'succeed'"),
    "C05-G": ("asyncio DatagramEndpoint.sendto(): failed send raised from sendto(), wake-up marker removed with get_nowait() (pops a received datagram)", "a datagram already queued + a send failing in the kernel (EMSGSIZE, ECONNREFUSED)"),
    "C05-H": ("StringLineSerializer.serialize(): removesuffix(separator) also with keep_end=True", "keep_end=True and a packet ending with the newline sequence, one-shot mode"),
    "C08-G": ("__flush_write_bio(): while pending → if pending (the lock owner no longer flushes what was added meanwhile)", "TLS 1.3 post-handshake client auth: a read produces cipher-text while a back-pressured writer owns the send lock"),
    "C08-H": ("__flush_write_bio(): flusher counter decremented inside the lock block (leaks when cancelled while queued)", "writer cancelled while queued on the send lock, later a read-only phase with a post-handshake certificate request"),
    "C12-G": ("same edit as C04-G", "see C04-G"),
    "C14-G": ("TLS wrap() failure handler: aclose_forcefully(self) instead of (transport) — takes the 'already closing' fast path", "a handshake that fails / times out / is cancelled through wrap() directly (client with ssl=)"),
    "C14-H": ("AsyncTCPNetworkClient.aclose(): connector cancellation moved under the send lock", "aclose() cancelled while waiting for the lock held by a send_packet() that is still connecting"),
    "C15-G": ("asyncio adapter aclose(): closing flag only set when the transport was not already closing", "≥ 2 requests in one chunk, peer reset while the handler is on the first, handler catches ConnectionError, closes the client and yields again"),
    "C15-H": ("same edit as C03-G", "ssl= server, an expired yielded timeout, a handler that carries on, then another request"),
    "C16-G": ("_ClientData.pop_datagram(): lock-free fast path, slow path with acquire()/release() and no finally", "a handler timeout expiring on an empty queue, generator keeps going, the same client sends again"),
    "C18-G": ("server_activate(): 'already bound → return' tested before 'closed → ServerClosedError'", "serve_forever() entering while server_close() is still closing the listeners"),
    "C18-H": ("listener raw_accept(): accept-scope reset after the with block instead of in a finally", "EMFILE on accept, shutdown() during the retry pause, then a restart (EBUSY)"),
    # ---- round 5 (G, H; the other ten properties), same brief as round 4
    "C02-G": ("_buffered_readuntil: resume offset after a failed scan = buflen - 1 instead of buflen + 1 - seplen", "buffered path, separator ≥ 3 bytes, a read boundary after ≥ 2 bytes of a terminator"),
    "C02-H": ("raw JSON raw_parse: enclosure_counter <= 0 → == 0 (same edit as C06-D)", "one closing bracket too many between documents"),
    "C07-G": ("_buffered_readuntil: 'not found / limit exceeded' check moved above the 'separator found' return", "one read filling the limit-sized buffer with small complete frames"),
    "C07-H": ("GeneratorStreamReader.read_until: chunks lacking the separator's last byte appended without rescanning (skips the limit check)", "a never-terminated frame arriving in ≥ 2 reads with no newline in the later ones"),
    "C01-G": ("AutoSeparatedPacketSerializer creates its GeneratorStreamReader once and reuses it (state of an unfinished packet belongs to the protocol object)", "copy path, one protocol object serving two connections, the first one closed mid-packet"),
    "C06-G": ("raw JSON plain-value branch: leading whitespace dropped by slicing the memoryview (+= then raises TypeError)", "use_lines=False, buffer starting with whitespace before a plain value cut by a read boundary"),
    "C06-H": ("FileBasedPacketSerializer: the 'packet longer than limit' raise replaced by the helper that reports the whole buffer as consumed", "an oversized packet completely received in the same read(s) as following packets"),
    "C09-G": ("_retry_ssl_method want-read branch: flush moved inside the receive lock", "one task parked in recv() while another calls aclose(): the close_notify waits for the receive lock"),
    "C09-H": ("aclose(): try unwrap / except OSError: flush collapsed into one suppress(OSError) block (flush only when unwrap() succeeded)", "the D24 history: two records in one segment, one read, then close"),
    "C11-G": ("_retry: next wait length computed once, refreshed only after an idle wake-up", "spurious readiness followed by a stall (TLS record drip-fed, slow reader on the send side)"),
    "C13-G": ("CancelScope.__uncancel_task: 'not our message → not ours' before the take-back loop (recognition by message only)", "the scope's cancellation comes back as a fresh CancelledError instance (Condition.wait in 3.12, user code re-raising a new one)"),
    "C13-H": ("CancelScope.__deliver_cancellation stops re-scheduling once task.cancel() was issued (edge-triggered)", "the CancelledError is consumed inside the body (except BaseException / ExceptionGroup replaces it) and the body carries on"),
    "C17-G": ("asyncio adapter aclose(): except OSError around write_eof() → except ConnectionError", "request and RST back to back, handler raises: shutdown() fails with ENOTCONN (plain OSError) in the per-client teardown"),
    "C17-H": ("server connection task ends with transport.aclose() instead of aclose_forcefully (as C14-F)", "handler fails because the peer does not read: unsent bytes, the graceful close waits for ever"),
    "C19-G": ("staggered race: cancel scope entered inside the task group (the winner's cancel only stops the scheduling loop)", "an attempt still pending when a later one wins"),
    "C19-H": ("staggered race: 'someone already won' check before the awaited connect, re-check after it dropped", "two attempts succeeding in the same loop iteration"),
    "C20-G": ("WriteFlowControl.drain() re-checks connection_lost after the wake-up", "sender suspended, another task closes gracefully, the peer reads again: the send fails although every byte was handed over"),
    "C20-H": ("drain(): lost-connection check nested under 'not paused'; connection_lost() no longer resets the paused flag", "connection lost while writing is paused, then any later send"),
    # round 6 (ids I)
    "C03-I": ("blocking endpoint receivers' clear() also resets _eof_reached → the sticky end-of-stream marker is forgotten by StreamEndpoint.close()", "blocking low-level StreamEndpoint: end-of-stream reported, then endpoint.close(), then recv_packet() → OSError(EBADF)"),
    "C13-I": ("CancelScope.__uncancel_task: 'carries our cancellation id → ours', the count of pending foreign requests is no longer consulted", "an external task.cancel() issued while the scope's own cancellation is in flight (asyncio delivers one exception for both)"),
    "C07-I": ("_buffered_readuntil: 'fast path' that only re-enters the search + limit check when the new bytes contain the separator's last byte", "buffered path; an unterminated frame arriving in ≥ 2 reads, the first still under the limit, the later ones without the separator's last byte"),
    "C10-I": ("endpoint _DataReceiverImpl/_BufferedReceiverImpl.receive(): plain coro_yield() after a packet was popped from the consumer", "≥ 2 packets in one chunk, then a recv_packet() served from the buffer and cancelled at its first suspension (expired scope, early task.cancel())"),
    "C15-I": ("StreamReaderBufferedProtocol._wait_for_data(): rescue keyed on `__external_buffer_view is not None`, which buffer_updated() has already reset", "BufferedStreamProtocol server, handler yielding a timeout, request bytes read in the same loop iteration as the expiry, handler carries on"),
    "C16-I": ("AsyncDatagramServer.serve(): one queue condition shared by all _ClientData → notify() wakes another client's waiter", "≥ 2 clients whose generators wait on `yield` at the same time and a datagram for the one that is not the longest waiter"),
    "C18-I": ("_run_sync_or_else(): contextlib.suppress(RuntimeError, CancelledError) swallows the BusyResourceError refusal of server_close()", "standalone server, server_close() from another thread while serve_forever() is still in its set-up phase"),
    "C11-I": ("TCPNetworkClient.send_packet: `with lock_with_timeout(...) as timeout` loses its `as timeout` → the send gets the full T after the lock wait", "two threads on one sync TCP client: send-lock wait 0 < w < T, then the send itself stalls"),
    "C12-I": ("AsyncTLSStreamTransport.send_all_from_iterable: encrypt-and-flush one chunk at a time (same idea as C08-F)", "two tasks sending directly on one TLS transport, first message ≥ 2 chunks and suspended in the flush of a non-last chunk"),
    "C14-I": ("AsyncioTransportStreamSocketAdapter.aclose(): try/except/finally → `with suppress(OSError): write_eof(); close()` (close skipped when the half-close raises)", "peer reset while the transport has paused reading (> 256 KiB unread), then aclose(): write_eof() → ENOTCONN"),
    "C17-I": ("AsyncTLSListener.serve(): wrap() options hoisted into a partial with handshake_timeout=self.__shutdown_timeout", "TLS server with a non-default ssl_handshake_timeout and a client that stalls its handshake"),
    "C19-I": ("connect_socket() swallows CancelledError when getpeername() succeeds + create_stream_connection() bypasses the race for a single address (two sites, each harmless alone)", "host resolving to ONE address, caller cancelled after the handshake finished but before the task resumes"),
}


EXPECTED_SURVIVE = {
    "C03-I": "only visible after the LOCAL endpoint.close(): the statement quantifies over sequences of recv_packet / iter_received_packets calls on a connection the peer closed; what a receive on a locally closed endpoint raises (sticky ConnectionAbortedError, EBADF, or ClientClosedError as TCPNetworkClient does) is not stated. A check that demanded the sticky error there would go beyond the statement.",
    "C12-C": "needs SSLObject.write() to raise SSLWantRead/WantWrite in the middle of a packet; real OpenSSL over a MemoryBIO never does that after the handshake (probed by two harness authors; the stdlib offers no renegotiation/KeyUpdate trigger). The author's demo uses a fake TLS engine. Recorded as unreachable for a simulation that runs the real ssl module.",
    "C04-C": "same edit as C12-C: unreachable with the real ssl module (needs SSLObject.write() to raise WantRead/WantWrite mid-packet).",
    "C04-D": "needs a would-block condition that is resolved without the descriptor ever becoming ready (a TLS client shared by two threads where the receiver consumes the record the sender waits for, or data buffered inside OpenSSL). The simulated selector reports readiness truthfully and the blocking TLS harnesses are single-threaded, so an un-timed select() still returns. Not modelled; stated limitation.",
    "C06-D": "a stray closing bracket is raw-JSON garbage without frame structure: C02 demands nothing there (by design of the statement), and every C06 clause still holds under the change (only parse errors escape, every reported error consumes bytes, nothing hangs, the C07 bound holds: the garbage is reported as a LimitOverrunError once the limit is reached). Outside the listed statements.",
    "C02-H": "same edit as C06-D: a stray closing bracket is raw-JSON garbage without frame structure; the frame-level clauses of C02 (one bad FRAME = one error, later frames still parse) are stated for streams of frames and demand nothing for bytes between documents; every C06/C07 clause still holds under the change.",
    "C15-C": "only removes a TimeoutError that should fire; the property states the other direction only ('TimeoutError only if no complete request arrived in time'), so a check that demanded it would go beyond the statement.",
}


def main() -> None:
    rows = []
    for mp in sorted(glob.glob(os.path.join(VERIF, "seeded", "*", "meta.json"))):
        m = json.load(open(mp))
        sid = m["id"]
        breaks, needs = SUMMARY.get(sid, ("", ""))
        if breaks:
            m["breaks"] = breaks
            m["needs_to_manifest"] = needs
        if sid in EXPECTED_SURVIVE:
            m["expected"] = "survived"
            m["why_not_killed"] = EXPECTED_SURVIVE[sid]
        json.dump(m, open(mp, "w"), indent=1)
        keys = ", ".join(k.split("/", 1)[1] if "/" in k else k for k in m.get("check_keys", [])[:2])
        other = "; also: " + ", ".join(f"{k} exit {v['exit']}" for k, v in m.get("other_checks", {}).items()) if m.get("other_checks") else ""
        rows.append(f"| {sid} | {m['property']} | {m.get('breaks', '')} | {m.get('needs_to_manifest', '')} | {m.get('result')} ({m.get('check_wall_s', '?')} s){': ' + keys if keys else ''}{other} |")
    print("| id | property | change | needs | our check |")
    print("|---|---|---|---|---|")
    print("\n".join(rows))


if __name__ == "__main__":
    main()
