#!/venv/bin/python
"""Generate /verif/MANIFEST.json from the table below (keeps the manifest valid and consistent)."""
import json
import os

VERIF = os.path.dirname(os.path.dirname(os.path.abspath(__file__)))
TECH = "deterministic simulation with fault injection: seeded search over schedules and fault sequences, replayable choice list"

# property -> (level category, engine, text, note, technique suffix)
CLAIMS = {
    "C01": ("exploration", "chunk+syncnet+aionet", "Seeded search over packet sequences x chunkings x receive paths x buffer sizes for every serializer of the matrix; oracle = the list that was sent; also 2-3 consumers built from ONE protocol object with interleaved reads (state leaking through the shared serializer). Sampling, not proof: a clean batch is evidence.", "Trusted: the packet generators' stated domains; value equality of decoded packets. T1 has no stub at all (the network is the list of cuts); T2 stubs socket/selector.", "chunk-schedule search against the sent list"),
    "C02": ("exploration", "chunk", "Seeded search over frame streams (valid/undecodable/empty/band/oversized) x chunkings x both receive paths; oracle = executable frame-by-frame reference decoder and the resume-after-rejection clause.", "Trusted: reference decoder (bytes.find splitting + fresh one-shot deserialize); alphabets that make junk attributable.", "chunk-schedule search against a frame-by-frame reference model"),
    "C03": ("exploration", "syncnet+aionet", "Simulated peer writes a stream and closes at a chosen position; caller histories of recv_packet/iter_received_packets with timeouts; history oracle (prefix, sticky EOF, no wait after EOF, justified TimeoutError).", "Trusted: SimSocket/SimSelector fidelity for recv/EOF/EAGAIN; world knows byte visibility times.", "simulated peer close positions x call histories, history check"),
    "C04": ("exploration", "syncnet+aionet+tls", "Generated chunk lists incl. empty chunks sent through every transport under short writes/EAGAIN/EINTR/reset; byte-exact oracle at the peer, budget on time and socket operations, loop spin detector; histories: a send suspended by back-pressure is abandoned by its time budget, the peer drains, later sends must complete (a hung send is a violation).", "Trusted: SimSocket send/sendmsg semantics (short counts, EAGAIN, EPIPE).", "per-call fault sequences, byte-exact peer oracle, spin/livelock detectors"),
    "C05": ("exploration", "syncnet+aionet", "Datagram net with loss/dup/reorder/malformed datagrams; each outcome compared with decoding that datagram alone with a fresh protocol; one sendto per send_packet; asyncio receives under zero/short timeouts, iter_received_packets and external cancellation (an interrupted receive consumes no datagram).", "Trusted: datagram SimSocket semantics; fresh-serializer reference.", "datagram fault interleavings against decode-alone reference"),
    "C06": ("exploration", "chunk", "Corruption of valid traffic in flight + structurally extreme inputs + random bytes, delivered with chunkings into the three modes; oracle = exception-type totality, strict progress, watchdog; on streams whose frame boundaries are known by construction: an error does not consume the frames behind the refused one (remainder clauses).", "One-shot part is input generation (said so in DESIGN); limits <= 64 KiB.", "in-flight corruption x chunking, exception totality and progress oracle"),
    "C07": ("exploration", "chunk", "Slow-loris peer and several-frames-per-read workloads over limits/separators/chunkings; behavioural bound oracle.", "Trusted: the bound arithmetic derived from the property text (limit + one read + one separator).", "slow-loris peer simulation, behavioural limit bound"),
    "C08": ("exploration", "tls", "Two writers + two readers over a TLS transport against an independent stdlib ssl peer; cipher-text fragmentation, delays, bounded capacity, three peer shapes; plaintext equality, no plaintext marker on the wire, deadlock detector; chatty variant: two writers with 30-120 back-to-back small writes (continuous hand-over of the send lock) + reader against a write-then-read peer.", "Trusted: stdlib ssl/OpenSSL as reference peer; cipher-text content is not reproducible, lengths are.", "full-duplex schedule search against a reference TLS peer"),
    "C09": ("fault_enumeration", "tls", "For seeded base scenarios, FIN is injected after every (thorough) / every structurally interesting (quick) byte offset of the peer's cipher-text, for both roles, TLS 1.2/1.3, both modes, async and blocking transports; histories: close with unread application data, close while a writer holds the send lock; server transports also produced through AsyncTLSListener.serve.", "Complete only for the base scenarios swept; cipher-text lengths assumed reproducible (re-measured every run).", "systematic cut-offset sweep over seeded base scenarios"),
    "C10": ("exploration", "aionet+syncnet", "Receiver under cancel sources with arrivals aligned to the cancelling timer (same iteration both orders, adjacent iterations); numbered stream equality; TLS with two concurrent writers holding/queueing for the send lock; bulk (>= 256 KiB) rescues.", "Trusted: asyncio loop iteration structure is the real one; alignment is done by the simulator's selector.", "arrival/cancellation coincidence search, stream equality"),
    "C11": ("exploration", "syncnet+threads", "Blocking calls under drip-feed/burst/spurious-readiness schedules on a virtual clock; elapsed <= T exactly, zero timeout never waits, TimeoutError justified by visibility times; select() overshoot fault (late idle wake-ups), slack = lateness of the last select only; iterator budgets across parse errors and after exhaustion.", "Processing costs zero virtual time, so the bound is exact.", "virtual-clock arrival schedules, exact budget oracle"),
    "C12": ("exploration", "aionet+threads", "N concurrent senders with back-pressure, short writes and resume orders; wire decodes into exactly the multiset sent, per-sender order; cancellation of arbitrary lock waiters in the very iteration in which the owner releases (asyncio.Lock and the library FairLock), TLS queued-sender cancellation.", "Trusted: reference decoder of self-identifying packets.", "sender interleaving search under back-pressure"),
    "C13": ("exploration", "aioloop", "Generated scope programs with external cancels run on the real backend under virtual time; invariants A1-A6 (incl. an external cancel accepted inside a shielded section: open findings D23, D35; statements that re-raise a fresh CancelledError or swallow it) and (restricted programs) trace equality with a reference interpreter.", "Reference interpreter models level-triggered scope semantics; ties accept both outcomes.", "generated scope programs x cancel times, invariant + reference-interpreter oracle"),
    "C14": ("fault_enumeration", "aionet+tls", "For seeded base scenarios of every close path, task.cancel() is injected before every loop iteration, and wrapped-transport errors at every call index; everything must end closed and a second close must be prompt; teardown of the server connection task with unsent bytes against a non-reading peer.", "Complete only for the base scenarios swept; a task steps at most once per loop iteration.", "cancellation-point sweep over seeded close scenarios"),
    "C15": ("exploration", "aionet", "Real TCP server on the simulated backend, 1-3 peers, chunking/delays/restarts/timeouts/bad frames; per-connection reference sequence, close-once; close while a background sender holds the send lock.", "Trusted: frame reference model; handler instrumentation.", "server schedule search against per-connection reference sequence"),
    "C16": ("exploration", "aionet", "Real UDP server, 2-4 addresses, arrival order vs handler progress; per-address FIFO, <=1 active generator, liveness after arrivals stop.", "Trusted: asyncio datagram transport on SimSocket.", "datagram arrival x handler progress interleavings"),
    "C17": ("exploration", "aionet+tls", "Exception class x hook position x set-up faults with healthy concurrent clients on TCP/TLS/UDP servers; healthy clients fully served, faulty connection closed; UDP re-spawn window (datagram between a handler's end and the respawned task), eager task factory as loop configuration.", "Trusted: healthy-client reference answers.", "handler/set-up fault injection with healthy-client oracle"),
    "C18": ("exploration", "aionet+threads", "Lifecycle call histories from several tasks/threads; set-of-states reference machine, no deadlock, listeners closed.", "Thread interleavings explored at synchronisation points plus bounded line-level pre-emptions.", "lifecycle history search against a nondeterministic reference state machine"),
    "C19": ("fault_enumeration", "aionet", "Per-attempt outcomes x completion orders x stagger delays, and cancellation before every loop iteration of a base run; socket registry oracle (one open or none); local_address resolving to several addresses with per-address bind faults (reachability with a bindable local address).", "Complete only for the base scenarios swept.", "connect-race outcome search + cancellation-point sweep, socket registry oracle"),
    "C20": ("exploration", "aionet", "Senders against a peer that stops/resumes reading, loss/close/cancel in any order; write buffer empty on return, every waiter resumed or failed; a later send after every sender ended (also after timed-out sends) must complete.", "Trusted: SimSocket capacity model for back-pressure.", "pause/resume/loss/cancel interleavings, flow-control oracle"),
}

DESIGN_REF = {p: f"DESIGN.md §4 {p}" for p in CLAIMS}


def main() -> None:
    ids = [json.loads(l)["id"] for l in open(os.path.join(VERIF, "properties.jsonl"))]
    claimed_path = os.path.join(VERIF, "tools", "claimed.json")
    claimed = json.load(open(claimed_path))
    checks = []
    for pid in ids:
        if pid not in claimed["claimed"]:
            continue
        cat, engine, text, note, tech = CLAIMS[pid]
        checks.append(
            {
                "property_id": pid,
                "quick_cmd": f"./check {pid} --tier quick",
                "thorough_cmd": f"./check {pid} --tier thorough",
                "evidence_file": f"/verif/evidence/{pid}.json",
                "replay_cmd_template": f"./check {pid} --replay {{path}}",
                "engine": engine,
                "level_claimed": {"category": cat, "text": text, "design_ref": DESIGN_REF[pid]},
                "level_note": note,
                "technique": f"{TECH}; {tech}",
            }
        )
    na = [{"property_id": p, "reason": claimed["not_claimed"].get(p, "not yet claimed: check under construction (see DESIGN.md §4)")} for p in ids if p not in claimed["claimed"]]
    manifest = {
        "version": 1,
        "setup_cmd": "./setup.sh",
        "hooks": {
            "guard": "EASYNETWORK_VERIF",
            "enable": "no source hooks exist: checks import the working tree directly (PYTHONPATH=/repo/src); the guard name is reserved and unused",
            "baseline_off_cmd": "cd /repo && /venv/bin/python -m pytest -ra -q -p no:cacheprovider --timeout=900 --continue-on-collection-errors",
            "source_commits": [],
            "add_only": True,
        },
        "engines": [
            {"name": "chunk", "path": "vsim/chunk.py", "serves_properties": ["C01", "C02", "C06", "C07"], "kind_free_text": "direct driver of the two stream consumers; the network is the list of cuts"},
            {"name": "syncnet", "path": "vsim/sock.py", "serves_properties": ["C01", "C03", "C04", "C05", "C10", "C11"], "kind_free_text": "fd-less SimSocket + SimSelector + virtual perf_counter under the blocking API"},
            {"name": "aionet", "path": "vsim/loop.py", "serves_properties": ["C01", "C03", "C04", "C05", "C10", "C12", "C14", "C15", "C16", "C17", "C18", "C19", "C20"], "kind_free_text": "real asyncio selector loop on SimSelector and the world clock + SimAsyncIOBackend"},
            {"name": "aioloop", "path": "vsim/loop.py", "serves_properties": ["C13"], "kind_free_text": "virtual-time event loop only"},
            {"name": "tls", "path": "vsim/tls.py", "serves_properties": ["C04", "C08", "C09", "C14", "C17"], "kind_free_text": "independent stdlib ssl reference peer on SimSocket or on a real in-process socketpair"},
            {"name": "threads", "path": "vsim/threads.py", "serves_properties": ["C11", "C12", "C18"], "kind_free_text": "baton scheduler over real threads at intercepted synchronisation points"},
        ],
        "checks": checks,
        "notes": "Single entry point ./check (DESIGN §3.1). Exit 0 held / 1 VIOLATION property=<id> replay=<path> / 2 HARNESS-ERROR. Known findings: /verif/known_findings.json.",
        "not_applicable": na,
    }
    with open(os.path.join(VERIF, "MANIFEST.json"), "w") as f:
        json.dump(manifest, f, indent=1)
    try:
        import jsonschema

        jsonschema.validate(manifest, json.load(open("/root/.vp/MANIFEST.schema.json")))
        print("MANIFEST valid;", len(checks), "checks,", len(na), "not claimed")
    except ImportError:
        print("MANIFEST written (jsonschema not available)")


if __name__ == "__main__":
    main()
