#!/venv/bin/python
"""Confirm and register a seeded change written by an independent sub-agent, then run our check against it.

usage: tools/seeded.py <PROP> <LETTER> [--budget S] [--no-baseline] [--check-args ...]
reads  /tmp/mut/<PROP>-out/{<LETTER>.patch.diff, demo_<LETTER>.py, notes.md}
does   1. fresh scratch worktree of /repo HEAD under mktemp (removed afterwards)
       2. demo passes without the change, fails with it
       3. the pinned test suite still passes with the change (tools/baseline.py)
       4. ./check <PROP> with VERIF_REPO_SRC=<worktree>/src  -> killed / survived
writes /verif/seeded/<PROP>-<LETTER>/{patch.diff, demo.py, meta.json}
"""
import json
import os
import shutil
import subprocess
import sys
import tempfile
import time

VERIF = os.path.dirname(os.path.dirname(os.path.abspath(__file__)))


def sh(cmd, **kw):
    return subprocess.run(cmd, capture_output=True, text=True, **kw)


def main():
    prop, letter = sys.argv[1], sys.argv[2]
    budget = int(sys.argv[sys.argv.index("--budget") + 1]) if "--budget" in sys.argv else 40
    check_args = sys.argv[sys.argv.index("--check-args") + 1 :] if "--check-args" in sys.argv else []
    check_prop = sys.argv[sys.argv.index("--check-prop") + 1] if "--check-prop" in sys.argv else prop
    src_root = sys.argv[sys.argv.index("--src-root") + 1] if "--src-root" in sys.argv else "/tmp/mut"
    as_letter = sys.argv[sys.argv.index("--as") + 1] if "--as" in sys.argv else letter
    src = f"{src_root}/{prop}-out"
    patch = os.path.join(src, f"{letter}.patch.diff")
    demo = os.path.join(src, f"demo_{letter}.py")
    assert os.path.exists(patch), patch
    assert os.path.exists(demo), demo
    d = tempfile.mkdtemp(prefix="verif-seed-")
    wt = os.path.join(d, "wt")
    meta = {"property": prop, "id": f"{prop}-{as_letter}", "ran": []}
    try:
        sh(["git", "-C", "/repo", "worktree", "add", "-q", "--detach", wt, "HEAD"], check=True)
        shutil.copy("/repo/src/easynetwork/version.py", os.path.join(wt, "src", "easynetwork", "version.py"))
        env = dict(os.environ, PYTHONPATH=os.path.join(wt, "src"))
        r0 = sh(["/venv/bin/python", demo], env=env, timeout=600, cwd=d)
        meta["demo_without_change_exit"] = r0.returncode
        ap = sh(["git", "-C", wt, "apply", patch])
        if ap.returncode != 0:
            ap = sh(["git", "-C", wt, "apply", "--3way", patch])
        meta["patch_applies"] = ap.returncode == 0
        if ap.returncode != 0:
            print("PATCH DOES NOT APPLY", ap.stderr[-400:])
            print(json.dumps(meta, indent=1))
            return 2
        r1 = sh(["/venv/bin/python", demo], env=env, timeout=600, cwd=d)
        meta["demo_with_change_exit"] = r1.returncode
        meta["demo_with_change_tail"] = (r1.stdout + r1.stderr)[-300:]
        meta["ran"].append("demo without change: exit %d; with change: exit %d" % (r0.returncode, r1.returncode))
        if "--no-baseline" not in sys.argv:
            b = sh([os.path.join(VERIF, "tools", "baseline.py"), wt, "-n", "10"], timeout=3600)
            line = [l for l in b.stdout.splitlines() if l.startswith("stable_pass=")]
            meta["baseline"] = line[-1] if line else b.stdout[-200:]
            meta["ran"].append("tools/baseline.py <worktree>: " + meta["baseline"])
        t0 = time.time()
        c = sh([os.path.join(VERIF, "check"), check_prop, "--budget", str(budget), "--no-evidence", *check_args], env=dict(os.environ, VERIF_REPO_SRC=os.path.join(wt, "src")), timeout=budget * 8 + 900)
        keys = sorted({l.split("key=")[1].strip() for l in c.stdout.splitlines() if "key=" in l and "clause=" in l})
        if check_prop != prop:
            meta.setdefault("other_checks", {})[check_prop] = {"exit": c.returncode, "keys": keys[:6]}
            print(json.dumps(meta["other_checks"], indent=1))
            mp = os.path.join(VERIF, "seeded", f"{prop}-{as_letter}", "meta.json")
            if os.path.exists(mp):
                prev = json.load(open(mp))
                prev.setdefault("other_checks", {}).update(meta["other_checks"])
                json.dump(prev, open(mp, "w"), indent=1)
            return 0
        meta["check_exit"] = c.returncode
        meta["check_keys"] = keys[:8]
        meta["check_wall_s"] = round(time.time() - t0, 1)
        meta["check_summary"] = [l for l in c.stdout.splitlines() if l.startswith("property=")][-1:] or [c.stdout[-300:] + c.stderr[-300:]]
        meta["result"] = "killed" if c.returncode == 1 and keys else ("harness-error" if c.returncode == 2 else "survived")
        meta["ran"].append(f"VERIF_REPO_SRC=<worktree>/src ./check {prop} --budget {budget} --no-evidence {' '.join(check_args)} -> exit {c.returncode}")
        # remove replay files produced for the mutated tree
        for l in c.stdout.splitlines():
            if l.startswith("VIOLATION property=") and "replay=" in l:
                try:
                    os.remove(l.split("replay=")[1].strip())
                except OSError:
                    pass
    finally:
        sh(["git", "-C", "/repo", "worktree", "remove", "--force", wt])
        shutil.rmtree(d, ignore_errors=True)
    confirmed = meta.get("demo_without_change_exit") == 0 and meta.get("demo_with_change_exit", 0) != 0 and "stable_but_not_passing=0" in meta.get("baseline", "stable_but_not_passing=0")
    meta["confirmed"] = confirmed
    meta["expected"] = "killed"
    if confirmed:
        out = os.path.join(VERIF, "seeded", f"{prop}-{as_letter}")
        os.makedirs(out, exist_ok=True)
        shutil.copy(patch, os.path.join(out, "patch.diff"))
        shutil.copy(demo, os.path.join(out, "demo.py"))
        notes = os.path.join(src, "notes.md")
        if os.path.exists(notes):
            shutil.copy(notes, os.path.join(out, "agent_notes.md"))
        prev = {}
        mp = os.path.join(out, "meta.json")
        if os.path.exists(mp):
            prev = json.load(open(mp))
        prev.update(meta)
        json.dump(prev, open(mp, "w"), indent=1)
    print(json.dumps(meta, indent=1))
    return 0


if __name__ == "__main__":
    sys.exit(main())
