#!/venv/bin/python
"""Run the repository's pinned test suite (BASELINE.json) and report stable_pass tests that no longer pass.
usage: tools/baseline.py [repo_dir] [-n JOBS]"""
import json, subprocess, sys, tempfile, os, xml.etree.ElementTree as ET
repo = sys.argv[1] if len(sys.argv) > 1 and not sys.argv[1].startswith('-') else '/repo'
jobs = sys.argv[sys.argv.index('-n') + 1] if '-n' in sys.argv else '12'
base = json.load(open('/root/.vp/BASELINE.json'))
with tempfile.TemporaryDirectory() as d:
    xml = os.path.join(d, 'junit.xml')
    env = dict(os.environ, PYTHONPATH=os.path.join(repo, 'src'))
    env.pop('EASYNETWORK_VERIF', None)
    cp = subprocess.run(['/venv/bin/python', '-m', 'pytest', '-q', '-p', 'no:cacheprovider', '--timeout=900', '--continue-on-collection-errors', '-n', jobs, f'--junitxml={xml}'], cwd=repo, env=env, capture_output=True, text=True)
    print(cp.stdout[-600:])
    # same rule as the official parser (/w/lib/parse_tests.py::parse_junit): a test with ANY failing entry is failed,
    # even if a rerun entry of it carries no failure child (pytest-rerunfailures writes several entries per test)
    passed, failed = set(), set()
    for tc in ET.parse(xml).getroot().iter('testcase'):
        tid = f"{tc.get('classname')}::{tc.get('name')}"
        st = (tc.get('status') or '').lower()
        if tc.find('failure') is not None or tc.find('error') is not None or st in ('fail', 'failed', 'error'):
            failed.add(tid)
        elif tc.find('skipped') is not None or st in ('skipped', 'notrun', 'disabled'):
            pass
        elif tc.find('flakyFailure') is not None or tc.find('rerunFailure') is not None:
            failed.add(tid)
        else:
            passed.add(tid)
    passed -= failed
missing = [t for t in base['stable_pass'] if t not in passed]
print(f"stable_pass={len(base['stable_pass'])} passed_now={len(passed)} stable_but_not_passing={len(missing)}")
for t in missing[:40]:
    print('  MISSING', t)
sys.exit(1 if missing else 0)
