#!/bin/bash
# MANIFEST.setup_cmd: offline, idempotent.  Nothing is compiled; nothing under /tmp is needed afterwards.
set -e
HERE="$(cd "$(dirname "${BASH_SOURCE[0]}")" && pwd)"
cd "$HERE"
# jsonschema is only used to self-validate evidence files; install from the offline wheelhouse when missing
/venv/bin/python -c "import jsonschema" 2>/dev/null || /venv/bin/pip install -q --no-index --find-links /opt/veriftools/wheels jsonschema >/dev/null 2>&1 || true
PYTHONHASHSEED=0 PYTHONPATH="/repo/src:$HERE" /venv/bin/python - <<'PY'
import easynetwork, ssl, os, sys
assert os.path.realpath(easynetwork.__file__).startswith("/repo/src/"), easynetwork.__file__
from vsim.tls import make_context
make_context(True, "1.3"); make_context(False, "1.2")
import vsim.runner, vsim.sock, vsim.loop, vsim.backend, vsim.harness
print("setup ok: easynetwork from", os.path.dirname(easynetwork.__file__))
PY
mkdir -p "$HERE/evidence" "$HERE/replays"
